/-
  WP1 — the cycle test.  `reachable` (ErgoModel/Query.lean) is a closure iteration with fuel = number of edges;
  prove it computes the reflexive-transitive closure `Path` (ErgoProofs/Spec.lean), and the graph facts C07 needs.
-/
import ErgoProofs.Spec
namespace Ergo

theorem Path.trans {E : List (Id × Id)} {a b c : Id} (h1 : Path E a b) (h2 : Path E b c) : Path E a c := by
  induction h1 with
  | refl _ => exact h2
  | step he _ ih => exact Path.step he (ih h2)

theorem Path.mono {E E' : List (Id × Id)} (hsub : ∀ e ∈ E, e ∈ E') {a b : Id} (h : Path E a b) : Path E' a b := by
  induction h with
  | refl _ => exact Path.refl _
  | step he _ ih => exact Path.step (hsub _ he) ih

/-! ### the closure iteration -/

/-- `s` is closed under successors -/
private def Closed (E : List (Id × Id)) (s : List Id) : Prop := ∀ e ∈ E, e.1 ∈ s → e.2 ∈ s

private theorem mem_closeStep {E : List (Id × Id)} {s : List Id} {x : Id} :
    x ∈ closeStep E s ↔ x ∈ s ∨ ∃ e ∈ E, e.1 ∈ s ∧ e.2 ∉ s ∧ e.2 = x := by
  unfold closeStep
  simp only [List.mem_append, List.mem_eraseDups, List.mem_map, List.mem_filter, Bool.and_eq_true,
    List.contains_iff_mem, Bool.not_eq_true', ← Bool.not_eq_true]
  constructor
  · rintro (h | ⟨e, ⟨he, h1, h2⟩, rfl⟩)
    · exact Or.inl h
    · exact Or.inr ⟨e, he, h1, h2, rfl⟩
  · rintro (h | ⟨e, he, h1, h2, rfl⟩)
    · exact Or.inl h
    · exact Or.inr ⟨e, ⟨he, h1, h2⟩, rfl⟩

private theorem subset_closeStep (E : List (Id × Id)) (s : List Id) {x : Id} (h : x ∈ s) : x ∈ closeStep E s :=
  mem_closeStep.2 (Or.inl h)

private theorem subset_closure (E : List (Id × Id)) (n : Nat) (s : List Id) {x : Id} (h : x ∈ s) :
    x ∈ closure E n s := by
  induction n generalizing s with
  | zero => exact h
  | succ n ih => exact ih _ (subset_closeStep E s h)

/-- soundness of the iteration -/
private theorem closure_sound (E : List (Id × Id)) (a : Id) (n : Nat) (s : List Id)
    (hs : ∀ x ∈ s, Path E a x) : ∀ x ∈ closure E n s, Path E a x := by
  induction n generalizing s with
  | zero => exact hs
  | succ n ih =>
    apply ih
    intro x hx
    rcases mem_closeStep.1 hx with h | ⟨e, he, h1, _, rfl⟩
    · exact hs x h
    · exact Path.trans (hs _ h1) (Path.step (a := e.1) (b := e.2) he (Path.refl _))

private theorem closeStep_of_closed {E : List (Id × Id)} {s : List Id} (h : Closed E s) : closeStep E s = s := by
  unfold closeStep
  have : (E.filter fun e => s.contains e.1 && !s.contains e.2) = [] := by
    rw [List.filter_eq_nil_iff]
    intro e he
    simp only [Bool.and_eq_true, List.contains_iff_mem, Bool.not_eq_true', ← Bool.not_eq_true]
    intro ⟨h1, h2⟩
    exact h2 (h e he h1)
  rw [this]; simp

private theorem closure_of_closed {E : List (Id × Id)} {s : List Id} (h : Closed E s) (n : Nat) :
    closure E n s = s := by
  induction n with
  | zero => rfl
  | succ n ih => simp only [closure, closeStep_of_closed h, ih]

private theorem closed_path {E : List (Id × Id)} {s : List Id} (h : Closed E s) {a b : Id}
    (ha : a ∈ s) (p : Path E a b) : b ∈ s := by
  induction p with
  | refl _ => exact ha
  | step he _ ih => exact ih (h _ he ha)

/-- number of edges whose target is not yet in `s` -/
private def missing (E : List (Id × Id)) (s : List Id) : Nat := (E.filter fun e => !s.contains e.2).length

private theorem filter_length_le {α} (p q : α → Bool) (l : List α) (h : ∀ x ∈ l, p x = true → q x = true) :
    (l.filter p).length ≤ (l.filter q).length := by
  induction l with
  | nil => simp
  | cons x l ih =>
    have ih' := ih (fun y hy => h y (List.mem_cons_of_mem _ hy))
    have hx := h x (List.mem_cons_self)
    simp only [List.filter_cons]
    cases hp : p x <;> cases hq : q x <;> simp_all <;> omega

private theorem filter_length_lt {α} (p q : α → Bool) (l : List α) (h : ∀ x ∈ l, p x = true → q x = true)
    (hex : ∃ x ∈ l, p x = false ∧ q x = true) :
    (l.filter p).length < (l.filter q).length := by
  induction l with
  | nil => simp at hex
  | cons x l ih =>
    have hle := filter_length_le p q l (fun y hy => h y (List.mem_cons_of_mem _ hy))
    have hx := h x (List.mem_cons_self)
    obtain ⟨y, hy, hpy, hqy⟩ := hex
    simp only [List.filter_cons]
    rcases List.mem_cons.1 hy with rfl | hy'
    · simp [hpy, hqy]; omega
    · have ih' := ih (fun y hy => h y (List.mem_cons_of_mem _ hy)) ⟨y, hy', hpy, hqy⟩
      cases hp : p x <;> cases hq : q x <;> simp_all <;> omega

private theorem missing_zero_closed {E : List (Id × Id)} {s : List Id} (h : missing E s = 0) : Closed E s := by
  intro e he _
  unfold missing at h
  have := List.length_eq_zero_iff.1 h
  rw [List.filter_eq_nil_iff] at this
  have := this e he
  simpa using this

private theorem missing_closeStep_lt {E : List (Id × Id)} {s : List Id} (h : ¬ Closed E s) :
    missing E (closeStep E s) < missing E s := by
  have hex : ∃ e ∈ E, e.1 ∈ s ∧ e.2 ∉ s := by
    apply Classical.byContradiction
    intro hn
    apply h
    intro e he h1
    apply Classical.byContradiction
    intro h2
    exact hn ⟨e, he, h1, h2⟩
  obtain ⟨e, he, h1, h2⟩ := hex
  unfold missing
  apply filter_length_lt
  · intro x _ hx
    simp only [Bool.not_eq_true', ← Bool.not_eq_true, List.contains_iff_mem] at hx ⊢
    exact fun hm => hx (subset_closeStep E s hm)
  · refine ⟨e, he, ?_, ?_⟩
    · simp only [Bool.not_eq_false', List.contains_iff_mem]
      exact mem_closeStep.2 (Or.inr ⟨e, he, h1, h2, rfl⟩)
    · simp only [Bool.not_eq_true', ← Bool.not_eq_true, List.contains_iff_mem]
      exact h2

private theorem closure_closed (E : List (Id × Id)) (n : Nat) (s : List Id) (h : missing E s ≤ n) :
    Closed E (closure E n s) := by
  induction n generalizing s with
  | zero => exact missing_zero_closed (Nat.le_zero.1 h)
  | succ n ih =>
    by_cases hc : Closed E s
    · rw [closure_of_closed hc]; exact hc
    · have := missing_closeStep_lt hc
      exact ih _ (by omega)

private theorem missing_le (E : List (Id × Id)) (s : List Id) : missing E s ≤ E.length :=
  List.length_filter_le _ _

theorem reachable_iff (E : List (Id × Id)) (a b : Id) : reachable E a b = true ↔ Path E a b := by
  unfold reachable
  rw [List.contains_iff_mem]
  constructor
  · intro h
    refine closure_sound E a _ [a] ?_ b h
    intro x hx
    rw [List.mem_singleton] at hx
    subst hx
    exact Path.refl _
  · intro p
    exact closed_path (closure_closed E _ [a] (missing_le E [a]))
      (subset_closure E _ [a] (List.mem_singleton.2 rfl)) p

/-- `hasCycle g f t` answers "would the edge f→t close a cycle" -/
theorem hasCycle_iff (g : Graph) (f t : Id) : hasCycle g f t = true ↔ f = t ∨ Path g.deps t f := by
  unfold hasCycle
  rw [Bool.or_eq_true, beq_iff_eq, reachable_iff]

/-- a path through `E ++ [(f,t)]` either avoids the new edge or splits around it -/
private theorem path_add_edge {E : List (Id × Id)} {f t x y : Id} (p : Path (E ++ [(f, t)]) x y) :
    Path E x y ∨ (Path E x f ∧ Path E t y) := by
  induction p with
  | refl _ => exact Or.inl (Path.refl _)
  | @step a b c he _ ih =>
    rcases List.mem_append.1 he with he | he
    · rcases ih with ih | ⟨i1, i2⟩
      · exact Or.inl (Path.step he ih)
      · exact Or.inr ⟨Path.step he i1, i2⟩
    · rw [List.mem_singleton] at he
      obtain ⟨rfl, rfl⟩ := Prod.mk.inj he
      rcases ih with ih | ⟨_, i2⟩
      · exact Or.inr ⟨Path.refl _, ih⟩
      · exact Or.inr ⟨Path.refl _, i2⟩

/-- adding an edge that the cycle test accepts keeps the relation acyclic -/
theorem acyclic_add_edge {E : List (Id × Id)} {f t : Id} (h : Acyclic E) (hne : f ≠ t) (hp : ¬ Path E t f) :
    Acyclic (E ++ [(f, t)]) := by
  intro a b hab p
  rcases List.mem_append.1 hab with hab | hab
  · rcases path_add_edge p with p | ⟨p1, p2⟩
    · exact h a b hab p
    · exact hp (Path.trans p2 (Path.step hab p1))
  · rw [List.mem_singleton] at hab
    obtain ⟨rfl, rfl⟩ := Prod.mk.inj hab
    rcases path_add_edge p with p | ⟨p1, _⟩
    · exact hp p
    · exact hp p1

/-- removing edges (unlink, prune) keeps it acyclic -/
theorem acyclic_sub {E E' : List (Id × Id)} (h : Acyclic E) (hsub : ∀ e ∈ E', e ∈ E) : Acyclic E' := by
  intro a b hab p
  exact h a b (hsub _ hab) (Path.mono hsub p)

theorem acyclic_nil : Acyclic [] := by
  intro a b hab
  simp at hab

/-- conversely: an accepted `hasCycle = false` edge is exactly what keeps acyclicity -/
theorem acyclic_add_edge_iff {E : List (Id × Id)} {f t : Id} (h : Acyclic E) :
    Acyclic (E ++ [(f, t)]) ↔ (f ≠ t ∧ ¬ Path E t f) := by
  constructor
  · intro hA
    have hmem : (f, t) ∈ E ++ [(f, t)] := List.mem_append.2 (Or.inr (List.mem_singleton.2 rfl))
    have hn := hA f t hmem
    constructor
    · intro heq
      subst heq
      exact hn (Path.refl _)
    · intro p
      exact hn (Path.mono (fun e he => List.mem_append.2 (Or.inl he)) p)
  · intro ⟨hne, hp⟩
    exact acyclic_add_edge h hne hp

end Ergo
