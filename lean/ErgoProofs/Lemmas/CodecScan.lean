/-
  WP20a — the JSON scanner of ErgoModel.Codec is stable under extension: whatever `scanStr`, `skipValue`, `members`, `elems`
  accept and consume, they accept and consume in exactly the same way when more bytes follow (for a number: provided something
  already followed it).  This is what makes a proper prefix of a complete line unparseable (CodecThm.prefix_bad).
-/
import ErgoModel.Codec
open Ergo Ergo.Storage

namespace Ergo.Codec

theorem scanStr_append (s : Bytes) (raw r x : Bytes) (h : scanStr s = some (raw, r)) : scanStr (s ++ x) = some (raw, r ++ x) := by
  fun_induction scanStr s generalizing raw r with
  | case1 => simp at h
  | case2 rest => 
    simp at h; obtain ⟨rfl, rfl⟩ := h
    rw [List.cons_append, scanStr.eq_def]; simp
  | case3 => simp at h
  | case4 h1 h2 h3 h4 r' hh hb ih =>
    simp only [Option.map_eq_some_iff] at h
    obtain ⟨⟨p1, p2⟩, hp, heq⟩ := h
    simp at heq; obtain ⟨rfl, rfl⟩ := heq
    have := ih _ _ hp
    rw [List.cons_append, scanStr.eq_def]; simp [hh, this]
  | case5 => simp at h
  | case6 => simp at h
  | case7 c r' hc hs hb ih =>
    simp only [Option.map_eq_some_iff] at h
    obtain ⟨⟨p1, p2⟩, hp, heq⟩ := h
    simp at heq; obtain ⟨rfl, rfl⟩ := heq
    have := ih _ _ hp
    rw [List.cons_append, scanStr.eq_def]; simp [hc, hs, this]
  | case8 => simp at h
  | case9 => simp at h
  | case10 b rest h1 h2 h3 ih =>
    simp only [Option.map_eq_some_iff] at h
    obtain ⟨⟨p1, p2⟩, hp, heq⟩ := h
    simp at heq; obtain ⟨rfl, rfl⟩ := heq
    have := ih _ _ hp
    rw [List.cons_append, scanStr.eq_def]; simp [h1, h2, h3, this]


theorem skipWs_append (s x : Bytes) (h : skipWs s ≠ []) : skipWs (s ++ x) = skipWs s ++ x := by
  induction s with
  | nil => simp [skipWs] at h
  | cons b r ih =>
    simp only [List.cons_append, skipWs] at h ⊢
    split
    · rename_i hb; simp only [hb, if_true] at h; exact ih h
    · rfl

theorem skipDigits_append (s x : Bytes) (h : skipDigits s ≠ []) : skipDigits (s ++ x) = skipDigits s ++ x := by
  induction s with
  | nil => simp [skipDigits] at h
  | cons b r ih =>
    simp only [List.cons_append, skipDigits] at h ⊢
    split
    · rename_i hb; simp only [hb, if_true] at h; exact ih h
    · rfl

theorem lit_append (cs s r x : Bytes) (h : lit cs s = some r) : lit cs (s ++ x) = some (r ++ x) := by
  induction cs generalizing s with
  | nil => cases s <;> simp_all [lit]
  | cons c cs ih =>
    cases s with
    | nil => simp [lit] at h
    | cons b t =>
      simp only [lit, List.cons_append] at h ⊢
      split
      · rename_i hb; simp only [hb, if_true] at h; exact ih _ h
      · rename_i hb; simp [hb] at h

theorem scanExp_append (s r x : Bytes) (h : scanExp s = some r) (hr : r ≠ []) : scanExp (s ++ x) = some (r ++ x) := by
  unfold scanExp at h ⊢
  cases s with
  | nil => simp at h; exact absurd h hr
  | cons e r' =>
    simp only [List.cons_append] at h ⊢
    by_cases he : e = 101 ∨ e = 69
    · simp only [he, if_true] at h ⊢
      cases r' with
      | nil => simp at h
      | cons s0 y =>
        simp only [List.cons_append] at h ⊢
        by_cases hs : s0 = 43 ∨ s0 = 45
        · simp only [hs, if_true] at h ⊢
          cases y with
          | nil => simp at h
          | cons d z =>
            simp only [List.cons_append] at h ⊢
            by_cases hd : isDigit d = true
            · simp only [hd, if_true, Option.some.injEq] at h ⊢
              subst h; exact skipDigits_append _ _ hr
            · simp [hd] at h
        · simp only [hs, if_false] at h ⊢
          by_cases hd : isDigit s0 = true
          · simp only [hd, if_true, Option.some.injEq] at h ⊢
            subst h; exact skipDigits_append _ _ hr
          · simp [hd] at h
    · simp only [he, if_false, Option.some.injEq] at h ⊢
      subst h; rfl

theorem scanFrac_append (s r x : Bytes) (h : scanFrac s = some r) (hr : r ≠ []) : scanFrac (s ++ x) = some (r ++ x) := by
  unfold scanFrac at h ⊢
  cases s with
  | nil => simp at h; exact absurd h hr
  | cons p r' =>
    simp only [List.cons_append] at h ⊢
    by_cases hp : p = 46
    · simp only [hp, if_true] at h ⊢
      cases r' with
      | nil => simp at h
      | cons d y =>
        simp only [List.cons_append] at h ⊢
        by_cases hd : isDigit d = true
        · simp only [hd, if_true] at h ⊢
          have hne : skipDigits y ≠ [] := by
            intro h0; rw [h0] at h; simp [scanExp] at h; exact hr h
          rw [skipDigits_append _ _ hne]
          exact scanExp_append _ _ _ h hr
        · simp [hd] at h
    · simp only [hp, if_false] at h ⊢
      exact scanExp_append (p :: r') r x h hr

theorem scanNumber_append (s r x : Bytes) (h : scanNumber s = some r) (hr : r ≠ []) : scanNumber (s ++ x) = some (r ++ x) := by
  unfold scanNumber at h ⊢
  have key : ∀ s1 : Bytes, (match s1 with
      | [] => none
      | d :: r => if d = 48 then scanFrac r else if 49 ≤ d ∧ d ≤ 57 then scanFrac (skipDigits r) else none) = some r →
      (match s1 ++ x with
      | [] => none
      | d :: r => if d = 48 then scanFrac r else if 49 ≤ d ∧ d ≤ 57 then scanFrac (skipDigits r) else none) = some (r ++ x) := by
    intro s1 h1
    cases s1 with
    | nil => simp at h1
    | cons d t =>
      simp only [List.cons_append] at h1 ⊢
      by_cases h48 : d = 48
      · simp only [h48, if_true] at h1 ⊢; exact scanFrac_append _ _ _ h1 hr
      · simp only [h48, if_false] at h1 ⊢
        by_cases h19 : 49 ≤ d ∧ d ≤ 57
        · simp only [h19, and_self, if_true] at h1 ⊢
          have hne : skipDigits t ≠ [] := by
            intro h0; rw [h0] at h1; simp [scanFrac] at h1; exact hr h1
          rw [skipDigits_append _ _ hne]
          exact scanFrac_append _ _ _ h1 hr
        · simp [h19] at h1
  cases s with
  | nil => simp at h
  | cons m t =>
    simp only [List.cons_append] at h ⊢
    by_cases hm : m = 45
    · simp only [hm, if_true] at h ⊢; exact key t h
    · simp only [hm, if_false] at h ⊢; exact key (m :: t) h

/-- the first byte starts a value that carries its own end mark (object, array, string, literal) — everything but a number -/
def Delim : Bytes → Prop
  | [] => False
  | b :: _ => b = 123 ∨ b = 91 ∨ b = 34 ∨ b = 116 ∨ b = 102 ∨ b = 110

theorem take_consumed (v r3 x : Bytes) :
    (v ++ x).take ((v ++ x).length - (r3 ++ x).length) = v.take (v.length - r3.length) := by
  have : (v ++ x).length - (r3 ++ x).length = v.length - r3.length := by simp only [List.length_append]; omega
  rw [this, List.take_append_of_le_length (by omega)]

theorem stable (f : Nat) :
    (∀ d s r x, skipValue f d s = some r → (r ≠ [] ∨ Delim s) → skipValue f d (s ++ x) = some (r ++ x)) ∧
    (∀ d s ms r x, members f d s = some (ms, r) → members f d (s ++ x) = some (ms, r ++ x)) ∧
    (∀ d s r x, elems f d s = some r → elems f d (s ++ x) = some (r ++ x)) := by
  induction f with
  | zero => refine ⟨?_, ?_, ?_⟩ <;> intros <;> simp_all [skipValue, members, elems]
  | succ f ih =>
    obtain ⟨ihV, ihM, ihE⟩ := ih
    refine ⟨?_, ?_, ?_⟩
    · intro d s r x h hd
      cases s with
      | nil => simp [skipValue] at h
      | cons b t =>
        simp only [List.cons_append, skipValue] at h ⊢
        by_cases h1 : b = 123
        · simp only [h1, if_true] at h ⊢
          cases d with
          | zero => simp at h
          | succ d =>
            simp only at h ⊢
            cases hw : skipWs t with
            | nil => simp [hw] at h
            | cons c r' =>
              have hw' : skipWs (t ++ x) = c :: (r' ++ x) := by rw [skipWs_append _ _ (by simp [hw]), hw]; rfl
              simp only [hw, hw'] at h ⊢
              by_cases hc : c = 125
              · simp only [hc, if_true, Option.some.injEq] at h ⊢; subst h; rfl
              · simp only [hc, if_false, Option.map_eq_some_iff] at h ⊢
                obtain ⟨⟨ms, r0⟩, hm, rfl⟩ := h
                exact ⟨(ms, r0 ++ x), by simpa using ihM d (c :: r') ms r0 x hm, rfl⟩
        · simp only [h1, if_false] at h ⊢
          by_cases h2 : b = 91
          · simp only [h2, if_true] at h ⊢
            cases d with
            | zero => simp at h
            | succ d =>
              simp only at h ⊢
              cases hw : skipWs t with
              | nil => simp [hw] at h
              | cons c r' =>
                have hw' : skipWs (t ++ x) = c :: (r' ++ x) := by rw [skipWs_append _ _ (by simp [hw]), hw]; rfl
                simp only [hw, hw'] at h ⊢
                by_cases hc : c = 93
                · simp only [hc, if_true, Option.some.injEq] at h ⊢; subst h; rfl
                · simp only [hc, if_false] at h ⊢
                  simpa using ihE d (c :: r') r x h
          · simp only [h2, if_false] at h ⊢
            by_cases h3 : b = 34
            · simp only [h3, if_true, Option.map_eq_some_iff] at h ⊢
              obtain ⟨⟨raw, r0⟩, hs, rfl⟩ := h
              exact ⟨(raw, r0 ++ x), scanStr_append _ _ _ _ hs, rfl⟩
            · simp only [h3, if_false] at h ⊢
              by_cases h4 : b = 116
              · simp only [h4, if_true] at h ⊢; exact lit_append _ _ _ _ h
              · simp only [h4, if_false] at h ⊢
                by_cases h5 : b = 102
                · simp only [h5, if_true] at h ⊢; exact lit_append _ _ _ _ h
                · simp only [h5, if_false] at h ⊢
                  by_cases h6 : b = 110
                  · simp only [h6, if_true] at h ⊢; exact lit_append _ _ _ _ h
                  · simp only [h6, if_false] at h ⊢
                    have hr : r ≠ [] := by
                      rcases hd with hr | hdl
                      · exact hr
                      · simp [Delim, h1, h2, h3, h4, h5, h6] at hdl
                    exact scanNumber_append (b :: t) r x h hr
    · intro d s ms r x h
      simp only [members] at h ⊢
      cases hw : skipWs s with
      | nil => simp [hw] at h
      | cons q r0 =>
        have hw' : skipWs (s ++ x) = q :: (r0 ++ x) := by rw [skipWs_append _ _ (by simp [hw]), hw]; rfl
        simp only [hw, hw'] at h ⊢
        by_cases hq : q ≠ 34
        · simp [hq] at h
        · simp only [hq, if_false] at h ⊢
          cases hs : scanStr r0 with
          | none => simp [hs] at h
          | some p =>
            obtain ⟨k, r1⟩ := p
            rw [scanStr_append _ _ _ x hs]
            simp only [hs] at h ⊢
            cases hw1 : skipWs r1 with
            | nil => simp [hw1] at h
            | cons c r2 =>
              have hw1' : skipWs (r1 ++ x) = c :: (r2 ++ x) := by rw [skipWs_append _ _ (by simp [hw1]), hw1]; rfl
              simp only [hw1, hw1'] at h ⊢
              by_cases hc : c ≠ 58
              · simp [hc] at h
              · simp only [hc, if_false] at h ⊢
                cases hv : skipValue f d (skipWs r2) with
                | none => simp [hv] at h
                | some r3 =>
                  simp only [hv] at h
                  cases hw3 : skipWs r3 with
                  | nil => simp [hw3] at h
                  | cons e r4 =>
                    have hr3 : r3 ≠ [] := by intro h0; rw [h0] at hw3; simp [skipWs] at hw3
                    have hv2 : skipWs r2 ≠ [] := by intro h0; rw [h0] at hv; cases f <;> simp [skipValue] at hv
                    have hw2' : skipWs (r2 ++ x) = skipWs r2 ++ x := skipWs_append _ _ hv2
                    have hv' := ihV d (skipWs r2) r3 x hv (Or.inl hr3)
                    have hw3' : skipWs (r3 ++ x) = e :: (r4 ++ x) := by rw [skipWs_append _ _ (by simp [hw3]), hw3]; rfl
                    simp only [hw2', hv', hw3, hw3', take_consumed] at h ⊢
                    by_cases he : e = 44
                    · simp only [he, if_true, Option.map_eq_some_iff] at h ⊢
                      obtain ⟨⟨ms', r'⟩, hm, heq⟩ := h
                      simp only [Prod.mk.injEq] at heq
                      obtain ⟨rfl, rfl⟩ := heq
                      exact ⟨(ms', r' ++ x), ihM d r4 ms' r' x hm, rfl⟩
                    · simp only [he, if_false] at h ⊢
                      by_cases he2 : e = 125
                      · simp only [he2, if_true, Option.some.injEq, Prod.mk.injEq] at h ⊢
                        obtain ⟨rfl, rfl⟩ := h; exact ⟨rfl, rfl⟩
                      · simp [he2] at h
    · intro d s r x h
      simp only [elems] at h ⊢
      cases hv : skipValue f d (skipWs s) with
      | none => simp [hv] at h
      | some r3 =>
        simp only [hv] at h
        cases hw3 : skipWs r3 with
        | nil => simp [hw3] at h
        | cons e r4 =>
          have hr3 : r3 ≠ [] := by intro h0; rw [h0] at hw3; simp [skipWs] at hw3
          have hv2 : skipWs s ≠ [] := by intro h0; rw [h0] at hv; cases f <;> simp [skipValue] at hv
          have hw2' : skipWs (s ++ x) = skipWs s ++ x := skipWs_append _ _ hv2
          have hv' := ihV d (skipWs s) r3 x hv (Or.inl hr3)
          have hw3' : skipWs (r3 ++ x) = e :: (r4 ++ x) := by rw [skipWs_append _ _ (by simp [hw3]), hw3]; rfl
          simp only [hw2', hv', hw3, hw3'] at h ⊢
          by_cases he : e = 44
          · simp only [he, if_true] at h ⊢; exact ihE d r4 r x h
          · simp only [he, if_false] at h ⊢
            by_cases he2 : e = 93
            · simp only [he2, if_true, Option.some.injEq] at h ⊢; subst h; rfl
            · simp [he2] at h

end Ergo.Codec
