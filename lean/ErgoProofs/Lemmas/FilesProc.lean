/-
  The write steps of the byte-level process model (ErgoModel.ProcBytes: one step = "the batch is in the file" / "the rewritten file has the
  log's name") are what the call sequences of ErgoModel.Files produce inside the lock section — and nothing of them is visible under the
  log's name before the one call that publishes.
-/
import ErgoProofs.Lemmas.FilesThm
import ErgoModel.ProcBytes
namespace Ergo.ProcB
open Ergo.Storage Ergo.Codec Ergo.Files

theorem file_writeBytes_replace (s : BSys) (evs : List Event) :
    (writeBytes s (.replace evs)).file = replaceFile (encodeEvent s.ets) evs := by
  simp [writeBytes, BSys.file]

theorem file_writeBytes_append (s : BSys) (evs : List Event) (hc : s.cur < s.files.length) :
    (writeBytes s (.append evs)).file = appendFile classifyLine (encodeEvent s.ets) s.file evs := by
  simp [writeBytes, BSys.file, hc]

/-- `plan` / `compact` inside their lock section, call by call (temporary file opened with `O_TRUNC`, written in any number of chunks, renamed):
    whatever an earlier killed rewrite left in the temporary file, the file under the log's name afterwards is the one the `write (.replace …)`
    step of the process model puts there; killed after any smaller number of calls, it is still the old one -/
theorem rewrite_is_the_replace_step (s : BSys) (evs : List Event) (chunks : List Bytes) (hch : chunks.flatten = replaceFile (encodeEvent s.ets) evs)
    (stale : Option Bytes) (fds : Fds) :
    (Files.run { dir := { log := some s.file, tmp := stale }, fds } (rewrite true chunks)).dir.log = some (writeBytes s (.replace evs)).file ∧
    ∀ k, k < (rewrite true chunks).length →
      (Files.run { dir := { log := some s.file, tmp := stale }, fds } ((rewrite true chunks).take k)).dir.log = some s.file := by
  refine ⟨?_, fun k hk => rewrite_killed _ true chunks k hk⟩
  rw [rewrite_complete, file_writeBytes_replace, hch]

/-- an appending command inside its lock section, call by call (`appendEvents`: open with `O_APPEND`, the repair of the tail, one write): the file
    under the log's name afterwards is the one the `write (.append …)` step puts there; between any two calls it is the old file, the repaired
    file (which reads the same), or that final file -/
theorem append_is_the_append_step (s : BSys) (evs : List Event) (hc : s.cur < s.files.length) (stale : Option Bytes) (fds : Fds) :
    (Files.run { dir := { log := some s.file, tmp := stale }, fds } (appendProgram classifyLine s.file (linesOf (encodeEvent s.ets) evs))).dir.log
      = some (writeBytes s (.append evs)).file := by
  rw [appendProgram_result, file_writeBytes_append s evs hc]

end Ergo.ProcB
