/-
  WP20d — `bytes.TrimSpace` on lines: a text that starts with `{` and ends with `}` is left alone; of a text that starts with `{`
  a non-empty prefix starting with `{` remains.
-/
import ErgoProofs.Lemmas.CodecObj
open Ergo Ergo.Storage
namespace Ergo.Codec

def revSpaces : List Bytes := wideSpaces.map List.reverse

theorem wide_bytes_ge : ∀ w ∈ wideSpaces, ∀ b ∈ w, (128 : UInt8) ≤ b := by decide
theorem rev_bytes_ge : ∀ w ∈ revSpaces, ∀ b ∈ w, (128 : UInt8) ≤ b := by decide
theorem wide_ne_nil : ∀ w ∈ wideSpaces, w ≠ [] := by decide
theorem rev_ne_nil : ∀ w ∈ revSpaces, w ≠ [] := by decide

theorem isAsciiSpace_lt (b : UInt8) (h : isAsciiSpace b = true) : b < 128 := by
  simp only [isAsciiSpace, decide_eq_true_eq] at h
  rw [UInt8.lt_iff_toNat_lt]
  rcases h with rfl | ⟨_, h2⟩
  · decide
  · have := UInt8.le_iff_toNat_le.1 h2; simp at this ⊢; omega

/-- a byte that is neither an ASCII space nor ≥ 128 stops the stripping -/
theorem strip_stop (table : List Bytes) (ht : ∀ w ∈ table, ∀ b ∈ w, (128 : UInt8) ≤ b) (hn : ∀ w ∈ table, w ≠ [])
    (f : Nat) (b : UInt8) (r : Bytes) (h1 : isAsciiSpace b = false) (h2 : b < 128) :
    stripSpaces table f (b :: r) = b :: r := by
  cases f with
  | zero => rfl
  | succ f =>
    simp only [stripSpaces, h1, Bool.false_eq_true, if_false]
    have : table.find? (fun w => w.isPrefixOf (b :: r)) = none := by
      rw [List.find?_eq_none]
      intro w hw
      cases w with
      | nil => exact absurd rfl (hn _ hw)
      | cons c t =>
        simp only [List.isPrefixOf, Bool.and_eq_true, beq_iff_eq, not_and]
        intro hc; subst hc
        have := ht _ hw c (by simp)
        have a := UInt8.le_iff_toNat_le.1 this; have b' := UInt8.lt_iff_toNat_lt.1 h2; simp at a b'; omega
    rw [this]

/-- stripping removes a run of bytes each of which is an ASCII space or ≥ 128 -/
theorem strip_spec (table : List Bytes) (ht : ∀ w ∈ table, ∀ b ∈ w, (128 : UInt8) ≤ b) (f : Nat) (s : Bytes) :
    ∃ pre, s = pre ++ stripSpaces table f s ∧ ∀ b ∈ pre, isAsciiSpace b = true ∨ (128 : UInt8) ≤ b := by
  induction f generalizing s with
  | zero => exact ⟨[], rfl, by simp⟩
  | succ f ih =>
    cases s with
    | nil => exact ⟨[], rfl, by simp⟩
    | cons b r =>
      simp only [stripSpaces]
      by_cases hb : isAsciiSpace b = true
      · simp only [hb, if_true]
        obtain ⟨pre, hp, hall⟩ := ih r
        refine ⟨b :: pre, by rw [List.cons_append, ← hp], ?_⟩
        intro x hx; simp only [List.mem_cons] at hx
        rcases hx with rfl | hx
        · exact Or.inl hb
        · exact hall x hx
      · simp only [hb, Bool.false_eq_true, if_false]
        cases hfind : table.find? (fun w => w.isPrefixOf (b :: r)) with
        | none => exact ⟨[], rfl, by simp⟩
        | some w =>
          simp only
          have hw := List.find?_some hfind
          have hmem := List.mem_of_find?_eq_some hfind
          obtain ⟨t, ht'⟩ := List.isPrefixOf_iff_prefix.1 hw
          obtain ⟨pre, hp, hall⟩ := ih ((b :: r).drop w.length)
          have hdrop : (b :: r).drop w.length = t := by rw [← ht', List.drop_left]
          refine ⟨w ++ pre, ?_, ?_⟩
          · rw [List.append_assoc, ← hp, hdrop, ht']
          · intro x hx; simp only [List.mem_append] at hx
            rcases hx with hx | hx
            · exact Or.inr (ht w hmem x hx)
            · exact hall x hx

theorem lbrace_not_space : isAsciiSpace 123 = false ∧ (123 : UInt8) < 128 := by decide

/-- `bytes.TrimSpace` of a text that starts with `{`: a non-empty prefix of it, still starting with `{` -/
theorem trimSpaceB_lbrace (q : Bytes) : ∃ t, trimSpaceB (123 :: q) = 123 :: t ∧ (123 :: t) <+: (123 :: q) := by
  have hl : trimLeftB (123 :: q) = 123 :: q := strip_stop wideSpaces wide_bytes_ge wide_ne_nil _ 123 q lbrace_not_space.1 lbrace_not_space.2
  unfold trimSpaceB; rw [hl]
  unfold trimRightB
  obtain ⟨pre, hp, hall⟩ := strip_spec revSpaces rev_bytes_ge ((123 :: q).length + 1) (123 :: q).reverse
  change ∃ t, (stripSpaces revSpaces ((123 :: q).length + 1) (123 :: q).reverse).reverse = 123 :: t ∧ _
  generalize stripSpaces revSpaces ((123 :: q).length + 1) (123 :: q).reverse = S at hp ⊢
  have hrev : 123 :: q = S.reverse ++ pre.reverse := by
    have := congrArg List.reverse hp
    rw [List.reverse_reverse, List.reverse_append] at this; exact this
  cases hs : S.reverse with
  | nil =>
    rw [hs, List.nil_append] at hrev
    have : (123 : UInt8) ∈ pre := by
      have : (123 : UInt8) ∈ pre.reverse := by rw [← hrev]; simp
      simpa using this
    rcases hall _ this with h | h
    · exact absurd h (by decide)
    · exact absurd h (by decide)
  | cons c t =>
    rw [hs] at hrev
    simp only [List.cons_append, List.cons.injEq] at hrev
    obtain ⟨rfl, hq⟩ := hrev
    exact ⟨t, rfl, ⟨pre.reverse, by rw [List.cons_append, ← hq]⟩⟩

theorem rbrace_not_space : isAsciiSpace 125 = false ∧ (125 : UInt8) < 128 := by decide

/-- a text that starts with `{` and ends with `}` is left alone -/
theorem trimSpaceB_braces (mid : Bytes) : trimSpaceB (123 :: (mid ++ [125])) = 123 :: (mid ++ [125]) := by
  have hl : trimLeftB (123 :: (mid ++ [125])) = 123 :: (mid ++ [125]) :=
    strip_stop wideSpaces wide_bytes_ge wide_ne_nil _ 123 _ lbrace_not_space.1 lbrace_not_space.2
  unfold trimSpaceB; rw [hl]
  unfold trimRightB
  have : (123 :: (mid ++ [125])).reverse = 125 :: (mid.reverse ++ [123]) := by simp
  change (stripSpaces revSpaces _ _).reverse = _
  rw [this, strip_stop revSpaces rev_bytes_ge rev_ne_nil _ 125 _ rbrace_not_space.1 rbrace_not_space.2]
  simp

end Ergo.Codec
