/-
  WP22 — the byte-level process system (ErgoModel.ProcBytes) refines the process model: every step other than a death inside a write is a
  `Proc.Step` on the decoded files (`step_sim`, `reach_sim`); a death inside a write leaves a file that loads and shows a prefix of the
  batch; under every schedule and every kill every file that ever had the log's name loads (`reach_inv`); the bytes under the log's name
  decode to the serial fold of the committed sections (`bytes_are_serial_fold`).
-/
import ErgoModel.ProcBytes
import ErgoProofs.Lemmas.CodecInst
import ErgoProofs.Lemmas.ProcThm
open Ergo Ergo.Storage Ergo.Codec Ergo.Proc
namespace Ergo.ProcB

/-- what is required of the writers: deciding on a log of well-formed events, one of them writes well-formed events
    (for ergo's commands: `cmdWriter_wf` below, from `Codec.runSec_wf`) -/
def WritersOK (s : BSys) : Prop :=
  ∀ w ∈ s.writers, ∀ snap wr, AllWf snap → w.decide snap = .ok wr → AllWf wr.events

theorem wEvents_eq (wr : Write) : wEvents wr = wr.events := by cases wr <;> rfl

theorem short_of (s : BSys) (evs : List Event) (hw : AllWf evs) (hf : Fits s evs) : Short Wf (encodeEvent s.ets) s.limit evs :=
  fun e he => ⟨hw e he, hf e he⟩

structure Inv (s : BSys) : Prop where
  cur : s.cur < s.files.length
  loads : ∀ f ∈ s.files, ∃ es, readEvents classifyLine s.limit f = .ok es ∧ AllWf es
  writers : WritersOK s
  /-- a snapshot a writer holds was read from a file of this system -/
  snaps : ∀ w ∈ s.writers, ∀ snap, w.phase = .read snap → AllWf snap

theorem decode_of_ok {limit : Nat} {f : Bytes} {es : List Event} (h : readEvents classifyLine limit f = .ok es) : decode limit f = es := by
  simp [decode, h]

theorem decode_nil (limit : Nat) : decode limit [] = [] := by
  simp [decode, readEvents_nil]

theorem abs_log (s : BSys) (hc : s.cur < s.files.length) : (abs s).log = decode s.limit s.file := by
  simp [abs, Sys.log, BSys.file, List.getD_eq_getElem?_getD, hc]

theorem abs_setPhase (s : BSys) (p : Nat) (ph : Phase) : abs (setPhaseB s p ph) = setPhase (abs s) p ph := rfl
theorem abs_setReader (s : BSys) (r : Nat) (ph : RPhase) : abs (setReaderB s r ph) = setReader (abs s) r ph := rfl

theorem abs_inode (s : BSys) (i : Nat) : (abs s).inodes.getD i [] = decode s.limit (s.files.getD i []) := by
  simp only [abs, List.getD_eq_getElem?_getD, List.getElem?_map]
  cases h : s.files[i]? with
  | none => simp [decode_nil]
  | some f => simp

theorem abs_writeBytes (s : BSys) (hinv : Inv s) (wr : Write) (hs : Short Wf (encodeEvent s.ets) s.limit wr.events) :
    abs (writeBytes s wr) = writeLog (abs s) wr ∧ Inv (writeBytes s wr) := by
  obtain ⟨es, hes, hesw⟩ := hinv.loads s.file (by
    simp only [BSys.file, List.getD_eq_getElem?_getD]
    rw [List.getElem?_eq_getElem hinv.cur]; exact List.getElem_mem _)
  have hlog := abs_log s hinv.cur
  cases wr with
  | append evs =>
    have hr := appendFile_reads (jsonCodec s.ets) s.file es evs hes hs
    have hd : decode s.limit (appendFile classifyLine (encodeEvent s.ets) s.file evs) = decode s.limit s.file ++ evs := by
      rw [decode_of_ok hr.1, decode_of_ok hes]
    refine ⟨?_, ?_⟩
    · simp only [writeBytes, writeLog, abs, List.map_set, hd]
      rw [← hlog]; rfl
    · refine ⟨by simpa [writeBytes] using hinv.cur, ?_, hinv.writers, hinv.snaps⟩
      intro f hf
      simp only [writeBytes] at hf
      rcases List.mem_or_eq_of_mem_set hf with h | h
      · exact hinv.loads f h
      · exact ⟨_, h ▸ hr.1, allWf_append hesw hs.w⟩
  | replace evs =>
    have hr := readEvents_linesOf (limit := s.limit) (jsonCodec s.ets) evs hs
    refine ⟨?_, ?_⟩
    · simp only [writeBytes, writeLog, abs, List.map_append, List.map_cons, List.map_nil, List.length_map, replaceFile, decode_of_ok hr]
    · refine ⟨by simp [writeBytes], ?_, hinv.writers, hinv.snaps⟩
      intro f hf
      simp only [writeBytes, List.mem_append, List.mem_singleton] at hf
      rcases hf with h | h
      · exact hinv.loads f h
      · exact ⟨evs, h ▸ hr, hs.w⟩


theorem mem_modify {α : Type} (f : α → α) (l : List α) (p : Nat) (x : α) (h : x ∈ l.modify p f) : x ∈ l ∨ ∃ y ∈ l, x = f y := by
  induction l generalizing p with
  | nil => cases p <;> simp at h
  | cons a r ih =>
    cases p with
    | zero =>
      simp only [List.modify_zero_cons, List.mem_cons] at h
      rcases h with rfl | h
      · exact Or.inr ⟨a, by simp, rfl⟩
      · exact Or.inl (by simp [h])
    | succ p =>
      simp only [List.modify_succ_cons, List.mem_cons] at h
      rcases h with rfl | h
      · exact Or.inl (by simp)
      · rcases ih p h with h' | ⟨y, hy, rfl⟩
        · exact Or.inl (by simp [h'])
        · exact Or.inr ⟨y, by simp [hy], rfl⟩

theorem writersOK_setPhase (s : BSys) (p : Nat) (ph : Phase) (h : WritersOK s) : WritersOK (setPhaseB s p ph) := by
  intro w hw snap wr hsn hd
  simp only [setPhaseB] at hw hd ⊢
  rcases mem_modify _ _ _ _ hw with h' | ⟨y, hy, rfl⟩
  · exact h w h' snap wr hsn hd
  · exact h y hy snap wr hsn hd

/-- a phase that is not `read`, or `read` of a well-formed snapshot -/
def PhaseOK (ph : Phase) : Prop := ∀ snap, ph = .read snap → AllWf snap

theorem inv_setPhase (s : BSys) (p : Nat) (ph : Phase) (h : Inv s) (hph : PhaseOK ph) : Inv (setPhaseB s p ph) := by
  refine ⟨h.cur, h.loads, writersOK_setPhase s p ph h.writers, ?_⟩
  intro w hw snap hsn
  simp only [setPhaseB] at hw
  rcases mem_modify _ _ _ _ hw with h' | ⟨y, hy, rfl⟩
  · exact h.snaps w h' snap hsn
  · exact hph snap hsn

theorem phaseOK_of_ne (ph : Phase) (h : ∀ snap, ph ≠ .read snap) : PhaseOK ph := fun snap hs => absurd hs (h snap)

theorem inv_holder (s : BSys) (hd : Option Nat) (h : Inv s) : Inv { s with holder := hd } := ⟨h.cur, h.loads, h.writers, h.snaps⟩
theorem inv_commits (s : BSys) (c : List (Nat × List Event × Write)) (h : Inv s) : Inv { s with commits := c } := ⟨h.cur, h.loads, h.writers, h.snaps⟩
theorem inv_setReader (s : BSys) (r : Nat) (ph : RPhase) (h : Inv s) : Inv (setReaderB s r ph) := ⟨h.cur, h.loads, h.writers, h.snaps⟩

/-- the step is a death inside a write -/
def Torn (b c : BSys) : Prop :=
  ∃ p w snap evs k, b.writers[p]? = some w ∧ w.phase = .read snap ∧ w.decide snap = .ok (.append evs) ∧
    c = { setPhaseB { b with files := b.files.set b.cur (appendTorn classifyLine (encodeEvent b.ets) b.file evs k) } p .crashed
          with holder := if b.holder = some p then none else b.holder }

/-- what a writer killed inside its write leaves: the file still loads, and shows what it showed plus a whole number of the batch's events -/
structure TornResult (s s' : BSys) : Prop where
  shows : ∃ (evs : List Event) (n : Nat), n ≤ evs.length ∧ (abs s').log = (abs s).log ++ evs.take n
  others : ∀ i, i ≠ s.cur → (abs s').inodes.getD i [] = (abs s).inodes.getD i []
  same_name : s'.cur = s.cur

/-- the target of a death inside a write -/
def tornTarget (s : BSys) (p : Nat) (evs : List Event) (k : Nat) : BSys :=
  { setPhaseB { s with files := s.files.set s.cur (appendTorn classifyLine (encodeEvent s.ets) s.file evs k) } p .crashed
    with holder := if s.holder = some p then none else s.holder }

theorem torn_sim (s : BSys) (hinv : Inv s) (p : Nat) (w : Writer) (snap evs : List Event) (k : Nat)
    (h1 : s.writers[p]? = some w) (h2 : w.phase = .read snap) (h3 : w.decide snap = .ok (.append evs)) (hfit : Fits s evs) :
    Inv (tornTarget s p evs k) ∧ TornResult s (tornTarget s p evs k) := by
  unfold tornTarget
  have hw : w ∈ s.writers := List.mem_of_getElem? h1
  have hs : Short Wf (encodeEvent s.ets) s.limit evs := short_of s evs (hinv.writers w hw snap _ (hinv.snaps w hw snap h2) h3) hfit
  obtain ⟨es, hes, hesw⟩ := hinv.loads s.file (by
    simp only [BSys.file, List.getD_eq_getElem?_getD]
    rw [List.getElem?_eq_getElem hinv.cur]; exact List.getElem_mem _)
  obtain ⟨n, hn, hr⟩ := appendTorn_reads (jsonCodec s.ets) s.file es evs k hes hs
  have hinv1 : Inv { s with files := s.files.set s.cur (appendTorn classifyLine (encodeEvent s.ets) s.file evs k) } := by
    refine ⟨by simpa using hinv.cur, ?_, hinv.writers, hinv.snaps⟩
    intro f hf
    rcases List.mem_or_eq_of_mem_set hf with h | h
    · exact hinv.loads f h
    · exact ⟨_, h ▸ hr, allWf_append hesw (fun e he => hs.w e (List.mem_of_mem_take he))⟩
  refine ⟨inv_holder _ _ (inv_setPhase _ p _ hinv1 (phaseOK_of_ne _ (by intro sn; simp))), ⟨evs, n, hn, ?_⟩, ?_, rfl⟩
  · have h1' := abs_log s hinv.cur
    rw [h1', decode_of_ok hes]
    simp only [abs, Sys.log, setPhaseB, List.getD_eq_getElem?_getD, List.getElem?_map, List.length_set, hinv.cur, List.getElem?_set_self,
      Option.map_some, Option.getD_some]
    exact decode_of_ok hr
  · intro i hi
    simp only [abs, setPhaseB, List.getD_eq_getElem?_getD, List.getElem?_map]
    rw [List.getElem?_set_ne (Ne.symm hi)]

/-- **simulation**: every step of the byte-level system other than a death inside a write is a step of the process model on the decoded files;
    a death inside a write leaves a loadable file that shows a prefix of the batch -/
theorem step_sim (s s' : BSys) (hinv : Inv s) (h : BStep s s') :
    Inv s' ∧ (Proc.Step (abs s) (abs s') ∨ (Torn s s' ∧ TornResult s s')) := by
  cases h with
  | lockOk p w h1 h2 h3 =>
    exact ⟨inv_holder _ _ (inv_setPhase s p _ hinv (phaseOK_of_ne _ (by intro snap; simp))), Or.inl (Proc.Step.lockOk (abs s) p w h1 h2 h3)⟩
  | lockBusy p w q h1 h2 h3 =>
    exact ⟨inv_setPhase s p _ hinv (phaseOK_of_ne _ (by intro snap; simp)), Or.inl (Proc.Step.lockBusy (abs s) p w q h1 h2 h3)⟩
  | read p w snap h1 h2 h3 =>
    have hsnap : AllWf snap := by
      obtain ⟨es, hes, hesw⟩ := hinv.loads s.file (by
        simp only [BSys.file, List.getD_eq_getElem?_getD]
        rw [List.getElem?_eq_getElem hinv.cur]; exact List.getElem_mem _)
      rw [hes] at h3; cases h3; exact hesw
    refine ⟨inv_setPhase s p _ hinv (by intro sn hsn; cases hsn; exact hsnap), Or.inl ?_⟩
    have := Proc.Step.read (abs s) p w h1 h2
    rw [abs_log s hinv.cur, decode_of_ok h3] at this
    exact this
  | decideErr p w snap e h1 h2 h3 =>
    exact ⟨inv_setPhase s p _ hinv (phaseOK_of_ne _ (by intro sn; simp)), Or.inl (Proc.Step.decideErr (abs s) p w snap e h1 h2 h3)⟩
  | write p w snap wr h1 h2 h3 hfit =>
    have hw : w ∈ s.writers := List.mem_of_getElem? h1
    obtain ⟨habs, hinv'⟩ := abs_writeBytes s hinv wr (short_of s _ (hinv.writers w hw snap wr (hinv.snaps w hw snap h2) h3) (wEvents_eq wr ▸ hfit))
    refine ⟨inv_commits _ _ (inv_setPhase _ p _ hinv' (phaseOK_of_ne _ (by intro sn; simp))), Or.inl ?_⟩
    have := Proc.Step.write (abs s) p w snap wr h1 h2 h3
    rw [← habs] at this
    exact this
  | tornWrite p w snap evs k h1 h2 h3 hfit =>
    obtain ⟨hi, ht⟩ := torn_sim s hinv p w snap evs k h1 h2 h3 hfit
    exact ⟨hi, Or.inr ⟨⟨p, w, snap, evs, k, h1, h2, h3, rfl⟩, ht⟩⟩
  | unlockOk p w snap wr h1 h2 =>
    exact ⟨inv_holder _ _ (inv_setPhase s p _ hinv (phaseOK_of_ne _ (by intro sn; simp))), Or.inl (Proc.Step.unlockOk (abs s) p w snap wr h1 h2)⟩
  | unlockErr p w snap e h1 h2 =>
    exact ⟨inv_holder _ _ (inv_setPhase s p _ hinv (phaseOK_of_ne _ (by intro sn; simp))), Or.inl (Proc.Step.unlockErr (abs s) p w snap e h1 h2)⟩
  | crash p w h1 h2 h3 =>
    exact ⟨inv_holder _ _ (inv_setPhase s p _ hinv (phaseOK_of_ne _ (by intro sn; simp))), Or.inl (Proc.Step.crash (abs s) p w h1 h2 h3)⟩
  | rOpen r h1 =>
    exact ⟨inv_setReader s r _ hinv, Or.inl (Proc.Step.rOpen (abs s) r h1)⟩
  | rRead r i h1 =>
    refine ⟨inv_setReader s r _ hinv, Or.inl ?_⟩
    have := Proc.Step.rRead (abs s) r i h1
    rw [abs_inode] at this
    exact this


/-- runs in which no process dies inside a write (deaths between system calls are `crash` steps and are included) -/
inductive BReachableNT : BSys → BSys → Prop where
  | refl (s) : BReachableNT s s
  | tail {a b c} : BReachableNT a b → BStep b c → ¬ Torn b c → BReachableNT a c

/-- **the store always loads**: whatever the schedule, whoever is killed wherever — between two calls or inside a write —, every file that ever
    had the log's name decodes -/
theorem reach_inv {a b : BSys} (h : BReachable a b) (ha : Inv a) : Inv b := by
  induction h with
  | refl => exact ha
  | tail _ hstep ih => exact (step_sim _ _ ih hstep).1

/-- **refinement**: a run of the byte-level system without deaths inside a write is a run of the process model on the decoded files -/
theorem reach_sim {a b : BSys} (h : BReachableNT a b) (ha : Inv a) : Proc.Reachable (abs a) (abs b) ∧ Inv b := by
  induction h with
  | refl => exact ⟨.refl _, ha⟩
  | tail _ hstep hnt ih =>
    obtain ⟨hr, hb⟩ := ih
    obtain ⟨hc, hs⟩ := step_sim _ _ hb hstep
    refine ⟨?_, hc⟩
    rcases hs with hs | ⟨ht, _⟩
    · exact .tail hr hs
    · exact absurd ht hnt

theorem writeBytes_limit (s : BSys) (wr : Write) : (writeBytes s wr).limit = s.limit := by cases wr <;> rfl

theorem step_limit {a b : BSys} (h : BStep a b) : b.limit = a.limit := by
  cases h <;> first | rfl | exact writeBytes_limit _ _

theorem limit_const {a b : BSys} (h : BReachableNT a b) : b.limit = a.limit := by
  induction h with
  | refl => rfl
  | tail _ hstep _ ih => rw [step_limit hstep, ih]

theorem abs_init (f : Bytes) (ws : List (List Event → Except CmdErr Write)) (nr limit : Nat) (ets : Event → String) :
    abs (BSys.init f ws nr limit ets) = Sys.init (decode limit f) ws nr := rfl

theorem inv_init (f : Bytes) (ws : List (List Event → Except CmdErr Write)) (nr limit : Nat) (ets : Event → String) (es : List Event)
    (hf : readEvents classifyLine limit f = .ok es) (hfw : AllWf es)
    (hw : ∀ d ∈ ws, ∀ snap wr, AllWf snap → d snap = .ok wr → AllWf wr.events) :
    Inv (BSys.init f ws nr limit ets) := by
  refine ⟨by simp [BSys.init], ?_, ?_, ?_⟩
  · intro g hg; simp only [BSys.init, List.mem_singleton] at hg; subst hg; exact ⟨es, hf, hfw⟩
  · intro w hw' snap wr hsn hd
    simp only [BSys.init, List.mem_map] at hw'
    obtain ⟨d, hd', rfl⟩ := hw'
    exact hw d hd' snap wr hsn hd
  · intro w hw' snap hsn
    simp only [BSys.init, List.mem_map] at hw'
    obtain ⟨d, _, rfl⟩ := hw'
    cases hsn

/-- the bytes under the log's name, decoded, are the serial fold of the committed lock sections — for every schedule of any number of writers and
    readers with deaths between system calls (the byte-level form of C02's main theorem) -/
theorem bytes_are_serial_fold (f : Bytes) (ws : List (List Event → Except CmdErr Write)) (nr limit : Nat) (ets : Event → String) (es : List Event)
    (hf : readEvents classifyLine limit f = .ok es) (hfw : AllWf es)
    (hw : ∀ d ∈ ws, ∀ snap wr, AllWf snap → d snap = .ok wr → AllWf wr.events)
    (s : BSys) (h : BReachableNT (BSys.init f ws nr limit ets) s) :
    readEvents classifyLine limit s.file = .ok (logAfter es s.commits s.commits.length) := by
  obtain ⟨hr, hinv⟩ := reach_sim h (inv_init f ws nr limit ets es hf hfw hw)
  rw [abs_init, decode_of_ok hf] at hr
  have hfold := log_is_fold hr
  have hlim : s.limit = limit := limit_const h
  obtain ⟨es', hes', _⟩ := hinv.loads s.file (by
    simp only [BSys.file, List.getD_eq_getElem?_getD]
    rw [List.getElem?_eq_getElem hinv.cur]; exact List.getElem_mem _)
  rw [abs_log s hinv.cur, decode_of_ok hes'] at hfold
  rw [← hlim, hes', hfold]; rfl

end Ergo.ProcB

namespace Ergo.ProcB
open Ergo Ergo.Storage Ergo.Codec Ergo.Proc

/-- ergo's own commands as writers: the lock section of a command run against the log it read (`runSec`); with clock readings before year 10000
    whatever it writes is well-formed (`Codec.runSec_wf`); that its lines fit the reader's limit is the one thing assumed -/
def cmdWriter (env : Env) (sec : Sec) : List Event → Except CmdErr Write := fun log => (runSec log env sec).map (·.1)

theorem cmdWriter_wf (env : Env) (henv : EnvT env) (sec : Sec) (snap : List Event) (wr : Write) (hs : AllWf snap)
    (h : cmdWriter env sec snap = .ok wr) : AllWf wr.events := by
  obtain ⟨⟨w, o⟩, hrun, hw⟩ := map_ok h
  simp only at hw; subst hw
  have := runSec_wf snap hs env henv sec w o hrun
  cases w with
  | append evs => exact fun e he => this e (by simp only [applyWrite, List.mem_append]; exact Or.inr he)
  | replace evs => exact this

end Ergo.ProcB
