/-
  WP20i — the bytes of the store and the abstract log: after any sequence of commands the file decodes, with ergo's real line format, to
  exactly the event list the command theorems speak about (`fileLog_reads`).
-/
import ErgoProofs.Lemmas.CodecInst
open Ergo Ergo.Storage Ergo.Codec
namespace Ergo.Codec

/-- what a command's write does to the bytes of the log file, with `ets` the envelope time stamps of the lines it writes -/
def fileAfter (ets : Event → String) (f : Bytes) : Option Write → Bytes
  | none => f
  | some (.append evs) => appendFile classifyLine (encodeEvent ets) f evs
  | some (.replace evs) => replaceFile (encodeEvent ets) evs

/-- the abstract log (what the command theorems speak about) together with the bytes of `.ergo/plans.jsonl`, after any sequence of commands
    run one at a time from the empty store; every command has clock readings before year 10000 and writes lines the reader admits -/
inductive FileLog (limit : Nat) : List Event → Bytes → Prop where
  | init : FileLog limit [] []
  | step {log : List Event} {f : Bytes} (env : Env) (req : Request) (ets : Event → String) :
      FileLog limit log f → EnvT env →
      (∀ e ∈ (runCmd log env req).log, (encodeEvent ets e).length < limit) →
      FileLog limit (runCmd log env req).log (fileAfter ets f (runCmd log env req).write)

theorem runCmd_log_eq (log : List Event) (env : Env) (req : Request) :
    (runCmd log env req).log = match (runCmd log env req).write with | none => log | some w => applyWrite log w := by
  unfold runCmd
  split
  · rfl
  · split <;> rfl

/-- **the file decodes to the log**: after any command history, reading the bytes of the store with the real line format gives exactly the
    abstract log the commands computed — every theorem about logs (`ReachOK …`) is a theorem about what is on disk -/
theorem fileLog_reads {limit : Nat} {log : List Event} {f : Bytes} (h : FileLog limit log f) :
    readEvents classifyLine limit f = .ok log ∧ AllWf log := by
  induction h with
  | init => exact ⟨readEvents_nil, allWf_nil⟩
  | @step log f env req ets _ henv hlen ih =>
    obtain ⟨hr, hw⟩ := ih
    have hw' := runCmd_wf log hw env henv req
    refine ⟨?_, hw'⟩
    have hlog := runCmd_log_eq log env req
    cases hwr : (runCmd log env req).write with
    | none =>
      rw [hwr] at hlog; simp only at hlog
      rw [hlog]; exact hr
    | some w =>
      rw [hwr] at hlog; simp only at hlog
      cases w with
      | append evs =>
        simp only [applyWrite] at hlog
        have hs : Short Wf (encodeEvent ets) limit evs := fun e he =>
          ⟨hw' e (by rw [hlog]; exact List.mem_append_right _ he), hlen e (by rw [hlog]; exact List.mem_append_right _ he)⟩
        rw [hlog]; exact (appendFile_reads (jsonCodec ets) f log evs hr hs).1
      | replace evs =>
        simp only [applyWrite] at hlog
        have hs : Short Wf (encodeEvent ets) limit evs := fun e he =>
          ⟨hw' e (by rw [hlog]; exact he), hlen e (by rw [hlog]; exact he)⟩
        rw [hlog]; exact readEvents_linesOf (jsonCodec ets) evs hs

end Ergo.Codec
