/-
  WP8 helper — the scanner loop `readLoop` / `readEvents` over a token list: composition over `++`,
  behaviour on good tokens, provenance of errors.
-/
import ErgoProofs.Lemmas.StorageSplit
namespace Ergo.Storage

variable {classify : Bytes → LineClass} {limit : Nat}

/-- the events one classified line contributes -/
def evOf : LineClass → List Event
  | .ev e => [e]
  | _ => []

/-- what the pending line will contribute once it is classified -/
def pend (classify : Bytes → LineClass) : Option (Nat × Bytes) → List Event
  | none => []
  | some (_, pl) => evOf (classify pl)

/-- the pending line (if any) parses -/
def GoodP (classify : Bytes → LineClass) (p : Option (Nat × Bytes)) : Prop :=
  ∀ pn pl, p = some (pn, pl) → classify pl ≠ .bad

/-- what `readEvents` does after the loop -/
def finish (classify : Bytes → LineClass) (b : Bool) :
    List Event × Option (Nat × Bytes) → Except ReadErr (List Event)
  | (acc, none) => .ok acc
  | (acc, some (pn, pl)) =>
    match classify pl with
    | .bad => if b then .error (.badLine pn) else .ok acc
    | .blank => .ok acc
    | .ev e => .ok (acc ++ [e])

theorem readEvents_eq (f : Bytes) :
    readEvents classify limit f =
      (readLoop classify limit (scanLines f) 0 none []).bind (finish classify (endsWithNL f)) := by
  unfold readEvents
  cases h : readLoop classify limit (scanLines f) 0 none [] with
  | error e => rfl
  | ok r =>
    obtain ⟨acc, p⟩ := r
    cases p with
    | none => rfl
    | some q => obtain ⟨pn, pl⟩ := q; rfl

theorem finish_good (b : Bool) (acc : List Event) (p : Option (Nat × Bytes)) (hp : GoodP classify p) :
    finish classify b (acc, p) = .ok (acc ++ pend classify p) := by
  cases p with
  | none => simp [finish, pend]
  | some q =>
    obtain ⟨pn, pl⟩ := q
    have := hp pn pl rfl
    simp only [finish, pend]
    cases h : classify pl with
    | bad => contradiction
    | blank => simp [evOf]
    | ev e => simp [evOf]

/-- on a file ending in '\n' (or with nothing pending) a successful finish means the pending line parses -/
theorem finish_ok_true {acc es : List Event} {p : Option (Nat × Bytes)}
    (h : finish classify true (acc, p) = .ok es) : GoodP classify p ∧ es = acc ++ pend classify p := by
  cases p with
  | none =>
    simp only [finish, Except.ok.injEq] at h
    exact ⟨(fun _ _ h => by cases h), by simp [pend, h]⟩
  | some q =>
    obtain ⟨pn, pl⟩ := q
    simp only [finish] at h
    cases hc : classify pl with
    | bad => simp [hc] at h
    | blank =>
      simp only [hc, Except.ok.injEq] at h
      refine ⟨?_, by simp [pend, hc, evOf, h]⟩
      intro _ _ e; cases e; simp [hc]
    | ev e =>
      simp only [hc, Except.ok.injEq] at h
      refine ⟨?_, by simp [pend, hc, evOf, h]⟩
      intro _ _ e; cases e; simp [hc]

theorem readLoop_nil (n : Nat) (p : Option (Nat × Bytes)) (acc : List Event) :
    readLoop classify limit [] n p acc = .ok (acc, p) := by
  simp [readLoop]

theorem readLoop_append (ts us : List Bytes) (n : Nat) (p : Option (Nat × Bytes)) (acc : List Event) :
    readLoop classify limit (ts ++ us) n p acc =
      (readLoop classify limit ts n p acc).bind
        (fun r => readLoop classify limit us (n + ts.length) r.2 r.1) := by
  induction ts generalizing n p acc with
  | nil => simp [readLoop, Except.bind]
  | cons t ts ih =>
    have e : n + (t :: ts).length = n + 1 + ts.length := by simp; omega
    rw [e]
    simp only [List.cons_append, readLoop]
    split
    · rfl
    · cases p with
      | none => simp only; exact ih ..
      | some q =>
        obtain ⟨pn, pl⟩ := q
        simp only
        cases classify pl with
        | bad => rfl
        | blank => simp only; exact ih ..
        | ev e => simp only; exact ih ..

theorem readLoop_single (t : Bytes) (n : Nat) (p : Option (Nat × Bytes)) (acc : List Event) :
    readLoop classify limit [t] n p acc =
      if t.length ≥ limit then .error .tooLong
      else match p with
        | none => .ok (acc, some (n + 1, t))
        | some (pn, pl) =>
          match classify pl with
          | .bad => .error (.badLine pn)
          | .blank => .ok (acc, some (n + 1, t))
          | .ev e => .ok (acc ++ [e], some (n + 1, t)) := by
  simp only [readLoop]
  split
  · rfl
  · cases p with
    | none => rfl
    | some q =>
      obtain ⟨pn, pl⟩ := q
      simp only
      cases classify pl <;> rfl

/-- one short token after a good pending line -/
theorem readLoop_single_good (t : Bytes) (n : Nat) (p : Option (Nat × Bytes)) (acc : List Event)
    (ht : t.length < limit) (hp : GoodP classify p) :
    readLoop classify limit [t] n p acc = .ok (acc ++ pend classify p, some (n + 1, t)) := by
  rw [readLoop_single, if_neg (by omega)]
  cases p with
  | none => simp [pend]
  | some q =>
    obtain ⟨pn, pl⟩ := q
    have := hp pn pl rfl
    simp only [pend]
    cases h : classify pl with
    | bad => contradiction
    | blank => simp [evOf]
    | ev e => simp [evOf]

/-- if one token is consumed successfully, the pending line was good, and the token is now pending -/
theorem readLoop_single_ok {t : Bytes} {n : Nat} {p : Option (Nat × Bytes)} {acc : List Event}
    {r : List Event × Option (Nat × Bytes)} (h : readLoop classify limit [t] n p acc = .ok r) :
    t.length < limit ∧ GoodP classify p ∧ r = (acc ++ pend classify p, some (n + 1, t)) := by
  rw [readLoop_single] at h
  split at h
  · cases h
  · rename_i hlt
    have hlt : t.length < limit := by omega
    refine ⟨hlt, ?_⟩
    cases p with
    | none =>
      simp only [Except.ok.injEq] at h
      exact ⟨(fun _ _ e => by cases e), by simp [pend, ← h]⟩
    | some q =>
      obtain ⟨pn, pl⟩ := q
      simp only at h
      cases hc : classify pl with
      | bad => simp [hc] at h
      | blank =>
        simp only [hc, Except.ok.injEq] at h
        refine ⟨?_, by simp [pend, hc, evOf, ← h]⟩
        intro _ _ e; cases e; simp [hc]
      | ev e =>
        simp only [hc, Except.ok.injEq] at h
        refine ⟨?_, by simp [pend, hc, evOf, ← h]⟩
        intro _ _ e; cases e; simp [hc]

/-- good tokens: the loop succeeds and the value `acc ++ pend p` grows by exactly their events -/
theorem readLoop_good (ts : List Bytes) (n : Nat) (p : Option (Nat × Bytes)) (acc : List Event)
    (hts : ∀ t ∈ ts, t.length < limit ∧ classify t ≠ .bad) (hp : GoodP classify p) :
    ∃ acc' p', readLoop classify limit ts n p acc = .ok (acc', p') ∧ GoodP classify p' ∧
      acc' ++ pend classify p' = acc ++ pend classify p ++ ts.flatMap (fun t => evOf (classify t)) := by
  induction ts generalizing n p acc with
  | nil => exact ⟨acc, p, readLoop_nil .., hp, by simp⟩
  | cons t ts ih =>
    have ht := hts t (by simp)
    have hgt : GoodP classify (some (n + 1, t)) := by
      intro _ _ e; cases e; exact ht.2
    obtain ⟨acc', p', h1, h2, h3⟩ := ih (n + 1) (some (n + 1, t)) (acc ++ pend classify p)
      (fun x hx => hts x (by simp [hx])) hgt
    refine ⟨acc', p', ?_, h2, ?_⟩
    · have := readLoop_append (classify := classify) (limit := limit) [t] ts n p acc
      simp only [List.singleton_append] at this
      rw [this, readLoop_single_good t n p acc ht.1 hp]
      simpa [Except.bind] using h1
    · rw [h3]; simp [pend]

/-! ### reading a file that extends a closed readable file by good tokens -/

theorem scanLines_nil : scanLines [] = [] := by
  simp [scanLines, splitNL]

/-- the loop state after a closed readable file: the pending line is good and the value is the result -/
theorem closed_state {f : Bytes} {es : List Event} (hcl : f = [] ∨ endsWithNL f = true)
    (hr : readEvents classify limit f = .ok es) :
    ∃ acc p, readLoop classify limit (scanLines f) 0 none [] = .ok (acc, p) ∧ GoodP classify p ∧
      es = acc ++ pend classify p := by
  rw [readEvents_eq] at hr
  cases h : readLoop classify limit (scanLines f) 0 none [] with
  | error e => simp [h, Except.bind] at hr
  | ok r =>
    obtain ⟨acc, p⟩ := r
    simp only [h, Except.bind] at hr
    rcases hcl with rfl | hcl
    · rw [scanLines_nil, readLoop_nil] at h
      cases h
      simp only [finish, Except.ok.injEq] at hr
      exact ⟨[], none, rfl, (fun _ _ e => by cases e), by simp [pend, hr]⟩
    · rw [hcl] at hr
      obtain ⟨h1, h2⟩ := finish_ok_true hr
      exact ⟨acc, p, rfl, h1, h2⟩

/-- core: appending good tokens to a closed readable file appends their events -/
theorem readEvents_extend {g h : Bytes} {es : List Event} (ts : List Bytes)
    (hcl : g = [] ∨ endsWithNL g = true) (hr : readEvents classify limit g = .ok es)
    (hs : scanLines h = scanLines g ++ ts) (hts : ∀ t ∈ ts, t.length < limit ∧ classify t ≠ .bad) :
    readEvents classify limit h = .ok (es ++ ts.flatMap (fun t => evOf (classify t))) := by
  obtain ⟨acc, p, h1, h2, h3⟩ := closed_state hcl hr
  obtain ⟨acc', p', h4, h5, h6⟩ := readLoop_good ts (0 + (scanLines g).length) p acc hts h2
  rw [readEvents_eq, hs, readLoop_append, h1]
  simp only [Except.bind]
  rw [h4]
  dsimp only
  rw [finish_good _ _ _ h5, h6, h3]

/-! ### provenance of errors -/

theorem finish_ne_tooLong (b : Bool) (r : List Event × Option (Nat × Bytes)) :
    finish classify b r ≠ .error .tooLong := by
  obtain ⟨acc, p⟩ := r
  cases p with
  | none => simp [finish]
  | some q =>
    obtain ⟨pn, pl⟩ := q
    simp only [finish]
    cases classify pl with
    | bad => cases b <;> simp
    | blank => simp
    | ev e => simp

theorem readLoop_tooLong (ts : List Bytes) (n : Nat) (p : Option (Nat × Bytes)) (acc : List Event)
    (h : readLoop classify limit ts n p acc = .error .tooLong) : ∃ l ∈ ts, l.length ≥ limit := by
  induction ts generalizing n p acc with
  | nil => simp [readLoop] at h
  | cons t ts ih =>
    simp only [readLoop] at h
    split at h
    · rename_i hl; exact ⟨t, by simp, hl⟩
    · have key : ∀ n p acc, readLoop classify limit ts n p acc = .error .tooLong →
          ∃ l ∈ t :: ts, l.length ≥ limit := by
        intro n p acc h
        obtain ⟨l, hl, hlen⟩ := ih n p acc h
        exact ⟨l, by simp [hl], hlen⟩
      cases p with
      | none => exact key _ _ _ h
      | some q =>
        obtain ⟨pn, pl⟩ := q
        simp only at h
        cases hc : classify pl with
        | bad => simp [hc] at h
        | blank => simp only [hc] at h; exact key _ _ _ h
        | ev e => simp only [hc] at h; exact key _ _ _ h

/-- the pending number is a valid 1-based index of the pending token -/
def PendAt (ts : List Bytes) (p : Option (Nat × Bytes)) : Prop :=
  ∀ pn pl, p = some (pn, pl) → 1 ≤ pn ∧ ts[pn - 1]? = some pl

theorem readLoop_index (ts pre : List Bytes) (p : Option (Nat × Bytes)) (acc : List Event)
    (hp : PendAt pre p) :
    (∀ k, readLoop classify limit ts pre.length p acc = .error (.badLine k) →
      1 ≤ k ∧ ∃ l, (pre ++ ts)[k - 1]? = some l ∧ classify l = .bad) ∧
    (∀ acc' p', readLoop classify limit ts pre.length p acc = .ok (acc', p') → PendAt (pre ++ ts) p') := by
  induction ts generalizing pre p acc with
  | nil =>
    constructor
    · intro k h; simp [readLoop] at h
    · intro acc' p' h
      simp only [readLoop, Except.ok.injEq, Prod.mk.injEq] at h
      rw [← h.2]; simpa using hp
  | cons t ts ih =>
    have hlen : (pre ++ [t]).length = pre.length + 1 := by simp
    have hpre : pre ++ t :: ts = (pre ++ [t]) ++ ts := by simp
    have hnew : PendAt (pre ++ [t]) (some (pre.length + 1, t)) := by
      intro pn pl e
      cases e
      exact ⟨by omega, by simp⟩
    have key : ∀ acc, (∀ k, readLoop classify limit ts (pre.length + 1) (some (pre.length + 1, t)) acc
          = .error (.badLine k) → 1 ≤ k ∧ ∃ l, (pre ++ t :: ts)[k - 1]? = some l ∧ classify l = .bad) ∧
        (∀ acc' p', readLoop classify limit ts (pre.length + 1) (some (pre.length + 1, t)) acc
          = .ok (acc', p') → PendAt (pre ++ t :: ts) p') := by
      intro acc
      have := ih (pre ++ [t]) (some (pre.length + 1, t)) acc hnew
      rw [hlen, ← hpre] at this
      exact this
    simp only [readLoop]
    split
    · constructor
      · intro k h; cases h
      · intro _ _ h; cases h
    · cases p with
      | none => exact key acc
      | some q =>
        obtain ⟨pn, pl⟩ := q
        simp only
        cases hc : classify pl with
        | bad =>
          constructor
          · intro k h
            simp only [Except.error.injEq, ReadErr.badLine.injEq] at h
            subst h
            obtain ⟨h1, h2⟩ := hp pn pl rfl
            refine ⟨h1, pl, ?_, hc⟩
            have hlt : pn - 1 < pre.length := by
              rcases Nat.lt_or_ge (pn - 1) pre.length with h | h
              · exact h
              · rw [List.getElem?_eq_none h] at h2; cases h2
            rw [List.getElem?_append_left hlt]; exact h2
          · intro _ _ h; cases h
        | blank => exact key acc
        | ev e => exact key (acc ++ [e])

theorem finish_badLine {b : Bool} {acc : List Event} {p : Option (Nat × Bytes)} {n : Nat}
    (h : finish classify b (acc, p) = .error (.badLine n)) : ∃ pl, p = some (n, pl) ∧ classify pl = .bad := by
  cases p with
  | none => simp [finish] at h
  | some q =>
    obtain ⟨pn, pl⟩ := q
    simp only [finish] at h
    cases hc : classify pl with
    | bad =>
      simp only [hc] at h
      cases b with
      | false => simp at h
      | true =>
        simp only [if_true, Except.error.injEq, ReadErr.badLine.injEq] at h
        subst h; exact ⟨pl, rfl, hc⟩
    | blank => simp [hc] at h
    | ev e => simp [hc] at h

/-! ### files with related token lists -/

/-- after a successful loop over `T ++ [t]` the pending line is `t` -/
theorem readLoop_snoc_ok {T : List Bytes} {t : Bytes} {n : Nat} {p : Option (Nat × Bytes)} {acc : List Event}
    {r : List Event × Option (Nat × Bytes)} (h : readLoop classify limit (T ++ [t]) n p acc = .ok r) :
    ∃ acc0 p0, readLoop classify limit T n p acc = .ok (acc0, p0) ∧ t.length < limit ∧ GoodP classify p0 ∧
      r = (acc0 ++ pend classify p0, some (n + T.length + 1, t)) := by
  rw [readLoop_append] at h
  cases h0 : readLoop classify limit T n p acc with
  | error e => simp [h0, Except.bind] at h
  | ok r0 =>
    obtain ⟨acc0, p0⟩ := r0
    simp only [h0, Except.bind] at h
    obtain ⟨h1, h2, h3⟩ := readLoop_single_ok h
    exact ⟨acc0, p0, rfl, h1, h2, h3⟩

/-- same tokens, last token parses: the trailing newline does not matter -/
theorem readEvents_same_tokens {f g : Bytes} {T : List Bytes} {t : Bytes}
    (hf : scanLines f = T ++ [t]) (hg : scanLines g = T ++ [t]) (ht : classify t ≠ .bad) :
    readEvents classify limit g = readEvents classify limit f := by
  rw [readEvents_eq, readEvents_eq, hf, hg]
  cases h : readLoop classify limit (T ++ [t]) 0 none [] with
  | error e => rfl
  | ok r =>
    obtain ⟨acc0, p0, -, -, -, rfl⟩ := readLoop_snoc_ok h
    have hg : GoodP classify (some (0 + T.length + 1, t)) := by
      intro _ _ e; cases e; exact ht
    simp only [Except.bind]
    rw [finish_good _ _ _ hg, finish_good _ _ _ hg]

/-- a last token that contributes nothing (blank, or unparsable on a file not ending in '\n') can be cut off -/
theorem readEvents_drop_last {f g : Bytes} {T : List Bytes} {t : Bytes} {es : List Event}
    (hf : scanLines f = T ++ [t]) (hg : scanLines g = T) (hnl : endsWithNL f = false)
    (ht : ∀ e, classify t ≠ .ev e) (hr : readEvents classify limit f = .ok es) :
    readEvents classify limit g = .ok es := by
  rw [readEvents_eq, hf] at hr
  rw [readEvents_eq, hg]
  cases h : readLoop classify limit (T ++ [t]) 0 none [] with
  | error e => simp [h, Except.bind] at hr
  | ok r =>
    obtain ⟨acc0, p0, h0, -, hp0, rfl⟩ := readLoop_snoc_ok h
    simp only [h, Except.bind, hnl, finish] at hr
    rw [h0]
    simp only [Except.bind]
    rw [finish_good _ _ _ hp0]
    cases hc : classify t with
    | bad => simpa [hc] using hr
    | blank => simpa [hc] using hr
    | ev e => exact absurd hc (ht e)

/-- an unparsable short token after a closed file, on a file not ending in '\n', is invisible -/
theorem readEvents_bad_tail {f h : Bytes} {t : Bytes} (hcl : f = [] ∨ endsWithNL f = true)
    (hs : scanLines h = scanLines f ++ [t]) (hnl : endsWithNL h = false) (hbad : classify t = .bad)
    (hlen : t.length < limit) : readEvents classify limit h = readEvents classify limit f := by
  rw [readEvents_eq, readEvents_eq, hs, readLoop_append, hnl]
  cases h0 : readLoop classify limit (scanLines f) 0 none [] with
  | error e => rfl
  | ok r =>
    obtain ⟨acc, p⟩ := r
    simp only [Except.bind]
    rw [readLoop_single, if_neg (by omega)]
    cases p with
    | none => simp [finish, hbad]
    | some q =>
      obtain ⟨pn, pl⟩ := q
      have hf : endsWithNL f = true := by
        rcases hcl with rfl | hcl
        · rw [scanLines_nil, readLoop_nil] at h0; cases h0
        · exact hcl
      rw [hf]
      simp only [finish]
      cases classify pl with
      | bad => simp
      | blank => simp [hbad]
      | ev e => simp [hbad]

end Ergo.Storage
