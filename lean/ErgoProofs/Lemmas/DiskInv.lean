/-
  WP25a — the invariants as statements about the bytes on disk: a command history that satisfies both what the command theorems assume
  of the environment (`EnvOK`) and what the line codec assumes (`EnvT`, lines shorter than the reader's limit) leaves a file that the real
  line format reads back to a log whose replay succeeds and satisfies every invariant (`disk_allInv`).
-/
import ErgoProofs.Lemmas.FileLog
import ErgoProofs.Lemmas.ReachInv
open Ergo Ergo.Storage Ergo.Codec
namespace Ergo.Codec

/-- the abstract log together with the bytes of `.ergo/plans.jsonl` after any sequence of commands run one at a time from the empty store,
    under both environment assumptions: `EnvOK` (ids non-empty, clock readings positive and not earlier than any stored) and `EnvT`
    (readings before year 10000), every written line shorter than the reader's limit -/
inductive DiskReach (limit : Nat) : List Event → Bytes → Prop where
  | init : DiskReach limit [] []
  | step {log : List Event} {f : Bytes} {g : Graph} (env : Env) (req : Request) (ets : Event → String) :
      DiskReach limit log f → replayRaw log = .ok g → EnvOK g env → EnvT env →
      (∀ e ∈ (runCmd log env req).log, (encodeEvent ets e).length < limit) →
      DiskReach limit (runCmd log env req).log (fileAfter ets f (runCmd log env req).write)

theorem diskReach_fileLog {limit : Nat} {log : List Event} {f : Bytes} (h : DiskReach limit log f) : FileLog limit log f := by
  induction h with
  | init => exact .init
  | step env req ets _ _ _ ht hl ih => exact .step env req ets ih ht hl

theorem diskReach_reachOK {limit : Nat} {log : List Event} {f : Bytes} (h : DiskReach limit log f) : ReachOK log := by
  induction h with
  | init => exact .init
  | step env req ets _ hr he _ _ ih => exact .step env req ih hr he

/-- **the invariants hold of what is on disk**: the bytes read back (real line format) to the log, the log replays, the graph satisfies
    every invariant -/
theorem disk_allInv {limit : Nat} {log : List Event} {f : Bytes} (h : DiskReach limit log f) :
    ∃ g, readEvents classifyLine limit f = .ok log ∧ replay log = .ok g ∧ AllInv g := by
  obtain ⟨g, hr, hinv⟩ := reach_replay log (diskReach_reachOK h)
  exact ⟨g, (fileLog_reads (diskReach_fileLog h)).1, hr, hinv⟩

end Ergo.Codec
