/-
  WP9, part 1 — what a run of update events, all stamped with one clock reading `now` that is positive and not earlier
  than any reading stored in the item, does to the per-item facts of `TaskOK`.
-/
import ErgoProofs.Inv
namespace Ergo

/-- `omega` does not look through the abbreviation `Time := Nat` -/
macro "tomega" : tactic => `(tactic| ((try unfold Time at *); omega))

/-! ### `maxTimes` -/
theorem maxTime_le_iff (a b n : Nat) : maxTime a b ≤ n ↔ a ≤ n ∧ b ≤ n := by
  unfold maxTime; split <;> tomega

theorem foldl_maxTime_le_iff (l : List Time) (a n : Time) :
    l.foldl maxTime a ≤ n ↔ a ≤ n ∧ ∀ x ∈ l, x ≤ n := by
  induction l generalizing a with
  | nil => simp
  | cons y ys ih => simp [List.foldl, ih, maxTime_le_iff, and_assoc]

theorem maxTimes_le_iff (l : List Time) (n : Time) : maxTimes l ≤ n ↔ ∀ x ∈ l, x ≤ n := by
  simp [maxTimes, foldl_maxTime_le_iff]

theorem le_maxTimes {l : List Time} {x : Time} (h : x ∈ l) : x ≤ maxTimes l :=
  (maxTimes_le_iff l _).1 (Nat.le_refl _) x h

theorem maxTimes_eq {l : List Time} {now : Time} (hm : now ∈ l) (hle : ∀ x ∈ l, x ≤ now) : maxTimes l = now :=
  Nat.le_antisymm ((maxTimes_le_iff _ _).2 hle) (le_maxTimes hm)

theorem maxTime_eq_right {a now : Nat} (h : a ≤ now) : maxTime a now = now := by
  unfold maxTime; split <;> tomega

/-! ### trimmed titles are not blank -/
theorem dropWhile_head_not {α : Type} (p : α → Bool) : ∀ (l : List α) (a : α) (r : List α),
    l.dropWhile p = a :: r → p a = false
  | [], _, _, h => by simp at h
  | x :: xs, a, r, h => by
    simp only [List.dropWhile] at h
    split at h
    · exact dropWhile_head_not p xs a r h
    · rename_i hx
      injection h with h1 _
      subst h1
      simpa using hx

theorem trimSpaceL_not_blank (l : List Char) (h : Text.trimSpaceL l ≠ []) : Text.isBlankL (Text.trimSpaceL l) = false := by
  unfold Text.trimSpaceL Text.trimRight at *
  generalize hd : (Text.trimLeft l).reverse.dropWhile Text.isSpace = d at *
  cases d with
  | nil => simp at h
  | cons a r =>
    have := dropWhile_head_not _ _ _ _ hd
    simp [Text.isBlankL, this]

theorem trimSpace_not_blank (s : String) (h : Text.trimSpace s ≠ "") : Text.isBlank (Text.trimSpace s) = false := by
  unfold Text.isBlank Text.trimSpace at *
  rw [String.toList_ofList]
  apply trimSpaceL_not_blank
  intro hnil
  apply h
  rw [hnil]

/-! ### the facts kept by every single event -/

/-- the step-invariant part of `TaskOK` (everything but `cleared`), the bound on the stored clock readings, the
    "epics have no epic event" fact of `AllInv`, and a property `R` of the epic reference of a task -/
structure StepOK (now : Time) (R : Id → Prop) (k : Task) : Prop where
  le_created : k.createdAt ≤ now
  le_updated : k.updatedAt ≤ now
  le_state : k.lastState ≤ now
  le_claim : k.lastClaim ≤ now
  le_title : k.lastTitle ≤ now
  le_body : k.lastBody ≤ now
  le_epic : k.lastEpic ≤ now
  le_results : ∀ r ∈ k.results, r.time ≤ now
  updated : k.updatedAt = maxTimes ([k.createdAt, k.lastTitle, k.lastBody, k.lastEpic, k.lastState] ++ k.results.map (·.time))
  claimTime : k.claimedBy ≠ "" → k.lastClaim ≠ 0
  epicFixed : k.isEpic = true → k.epicId = k.cEpic
  epic0 : k.isEpic = true → k.lastEpic = 0
  cStSet : k.cSt ≠ .other ""
  titled : Text.isBlank k.title = false
  titleKept : k.lastTitle = 0 → k.title = (if k.cTitle != "" then k.cTitle else k.title)
  created_pos : k.createdAt ≠ 0
  epicR : k.isEpic = false → R k.epicId
  epicE : k.isEpic = true → k.epicId = ""

/-- an update event for `id` as the CLI writes it at time `now` for an item of kind `isEpic` -/
def GoodEv (id : Id) (now : Time) (isEpic : Bool) (R : Id → Prop) : Event → Prop
  | .state i _ (some t) | .claim i _ (some t) | .body i _ (some t) | .result i _ _ _ _ _ (some t) => i = id ∧ t = now
  | .unclaim i => i = id
  | .title i s (some t) => i = id ∧ t = now ∧ Text.isBlank s = false
  | .epic i e (some t) => i = id ∧ t = now ∧ isEpic = false ∧ R e
  | _ => False

theorem GoodEv.isUpdateFor {id now isEpic R e} (h : GoodEv id now isEpic R e) : IsUpdateFor id e := by
  cases e <;> simp only [GoodEv] at h
  all_goals (try (rename_i ts; cases ts <;> simp only [GoodEv] at h))
  all_goals first | exact h.1 | exact h


theorem upd_eq {now : Time} {l : List Time} {rs : List ResultRec} (hm : now ∈ l) (hl : ∀ x ∈ l, x ≤ now)
    (hr : ∀ r ∈ rs, r.time ≤ now) : now = maxTimes (l ++ rs.map (·.time)) := by
  symm
  apply maxTimes_eq
  · exact List.mem_append_left _ hm
  · intro x hx
    rcases List.mem_append.1 hx with hx | hx
    · exact hl x hx
    · obtain ⟨r, hr', rfl⟩ := List.mem_map.1 hx
      exact hr r hr'

theorem stepTask_StepOK {id : Id} {now : Time} {R : Id → Prop} {k : Task} {e : Event} (hpos : 0 < now)
    (h : StepOK now R k) (he : GoodEv id now k.isEpic R e) : StepOK now R (stepTask k e) := by
  have hu := maxTime_eq_right h.le_updated
  have hpos' : now ≠ 0 := by tomega
  obtain ⟨h1, h2, h3, h4, h5, h6, h7, h8, h9, h10, h11, h12, h13, h14, h15, h16, h17, h18⟩ := h
  cases e <;> simp only [GoodEv] at he
  all_goals (try (rename_i ts; cases ts <;> simp only [GoodEv] at he))
  case state i st t =>
    obtain ⟨-, rfl⟩ := he
    simp only [stepTask, hu]
    refine ⟨h1, Nat.le_refl _, Nat.le_refl _, h4, h5, h6, h7, h8, ?_, ?_, h11, h12, h13, h14, h15, h16, h17, h18⟩
    · apply upd_eq (by simp) _ h8
      simp; exact ⟨h1, h5, h6, h7⟩
    · split
      · simp
      · exact h10
  case claim i a t =>
    obtain ⟨-, rfl⟩ := he
    simp only [stepTask]
    exact ⟨h1, h2, h3, Nat.le_refl _, h5, h6, h7, h8, h9, fun _ => hpos', h11, h12, h13, h14, h15, h16, h17, h18⟩
  case unclaim i =>
    simp only [stepTask]
    exact ⟨h1, h2, h3, h4, h5, h6, h7, h8, h9, by simp, h11, h12, h13, h14, h15, h16, h17, h18⟩
  case title i s t =>
    obtain ⟨-, rfl, hs⟩ := he
    simp only [stepTask, hu]
    refine ⟨h1, Nat.le_refl _, h3, h4, Nat.le_refl _, h6, h7, h8, ?_, h10, h11, h12, h13, hs, fun hx => absurd hx hpos', h16, h17, h18⟩
    apply upd_eq (by simp) _ h8
    simp; exact ⟨h1, h6, h7, h3⟩
  case body i s t =>
    obtain ⟨-, rfl⟩ := he
    simp only [stepTask, hu]
    refine ⟨h1, Nat.le_refl _, h3, h4, h5, Nat.le_refl _, h7, h8, ?_, h10, h11, h12, h13, h14, h15, h16, h17, h18⟩
    apply upd_eq (by simp) _ h8
    simp; exact ⟨h1, h5, h7, h3⟩
  case epic i s t =>
    obtain ⟨-, rfl, hE, hR⟩ := he
    simp only [stepTask, hu]
    refine ⟨h1, Nat.le_refl _, h3, h4, h5, h6, Nat.le_refl _, h8, ?_, h10, ?_, ?_, h13, h14, h15, h16, fun _ => hR, ?_⟩
    · apply upd_eq (by simp) _ h8
      simp; exact ⟨h1, h5, h6, h3⟩
    · intro hx; rw [hE] at hx; cases hx
    · intro hx; rw [hE] at hx; cases hx
    · intro hx; rw [hE] at hx; cases hx
  case result i su pa sh mt gi t =>
    obtain ⟨-, rfl⟩ := he
    simp only [stepTask, hu]
    refine ⟨h1, Nat.le_refl _, h3, h4, h5, h6, h7, ?_, ?_, h10, h11, h12, h13, h14, h15, h16, h17, h18⟩
    · intro r hr
      rcases List.mem_cons.1 hr with rfl | hr
      · exact Nat.le_refl _
      · exact h8 r hr
    · symm
      apply maxTimes_eq
      · simp
      · intro x hx
        simp only [List.map_cons, List.mem_append, List.mem_cons, List.mem_map, List.not_mem_nil, or_false] at hx
        rcases hx with (rfl | rfl | rfl | rfl | rfl) | rfl | ⟨r, hr, rfl⟩
        · exact h1
        · exact h5
        · exact h6
        · exact h7
        · exact h3
        · exact Nat.le_refl _
        · exact h8 r hr
theorem foldl_stepTask_isEpic (k : Task) (evs : List Event) : (evs.foldl stepTask k).isEpic = k.isEpic := by
  induction evs generalizing k with
  | nil => rfl
  | cons e es ih => simp [List.foldl, ih]

theorem foldl_StepOK {id : Id} {now : Time} {R : Id → Prop} (hpos : 0 < now) : ∀ (evs : List Event) (k : Task),
    StepOK now R k → (∀ e ∈ evs, GoodEv id now k.isEpic R e) → StepOK now R (evs.foldl stepTask k)
  | [], _, h, _ => h
  | e :: es, k, h, he => by
    simp only [List.foldl]
    apply foldl_StepOK hpos es _ (stepTask_StepOK hpos h (he e (by simp)))
    intro e' he'
    rw [stepTask_isEpic]
    exact he e' (by simp [he'])

theorem stepTask_SameSC {k k' : Task} (e : Event) (h : SameSC k k') : SameSC (stepTask k e) (stepTask k' e) := by
  obtain ⟨h1, h2, h3⟩ := h
  cases e
  all_goals (try (rename_i ts; cases ts))
  all_goals simp [stepTask, SameSC, h1, h2, h3]

theorem foldl_SameSC {k k' : Task} (evs : List Event) (h : SameSC k k') :
    SameSC (evs.foldl stepTask k) (evs.foldl stepTask k') := by
  induction evs generalizing k k' with
  | nil => exact h
  | cons e es ih => simp only [List.foldl]; exact ih (stepTask_SameSC e h)

theorem TaskOK_of_StepOK {now : Time} {R : Id → Prop} {k : Task} (h : StepOK now R k) (hi : TaskInv k) : TaskOK k := by
  exact ⟨h.updated, h.claimTime, h.epicFixed, h.cStSet, h.titled, h.titleKept, h.created_pos⟩

theorem StepOK_of_TaskOK {now : Time} {R : Id → Prop} {t : Task} (h : TaskOK t) (hle : ∀ x ∈ t.times, x ≤ now)
    (h0 : t.isEpic = true → t.lastEpic = 0) (hR : t.isEpic = false → R t.epicId)
    (hE : t.isEpic = true → t.epicId = "") : StepOK now R t := by
  simp only [Task.times, List.mem_append, List.mem_cons, List.mem_map, List.not_mem_nil, or_false] at hle
  refine ⟨hle _ (by simp), hle _ (by simp), hle _ (by simp), hle _ (by simp), hle _ (by simp), hle _ (by simp),
    hle _ (by simp), fun r hr => hle _ (Or.inr ⟨r, hr, rfl⟩), h.updated, h.claimTime, h.epicFixed, h0, h.cStSet, h.titled,
    h.titleKept, h.created_pos, hR, hE⟩

theorem buildSetEvents_good {t : Task} {u : Updates} {agent : String} {now : Time} {evs : List Event} {R : Id → Prop}
    (h : buildSetEvents t u agent now = .ok evs) (hR : ∀ e, u.epic = some e → t.isEpic = false → R e) :
    ∀ e ∈ evs, GoodEv t.id now t.isEpic R e := by
  obtain ⟨claim, e1, e3, e4, e5, e6, h0, h1, h3, h4, h5, h6, rfl⟩ := buildSetEvents_ok h
  intro e he
  simp only [List.mem_append] at he
  rcases he with ((((he | he) | he) | he) | he) | he
  · rcases evTitle_ok h1 with ⟨-, rfl⟩ | ⟨s, -, hs, rfl⟩
    · simp at he
    · simp only [List.mem_singleton] at he; subst he
      exact ⟨rfl, rfl, trimSpace_not_blank s hs⟩
  · rcases evBody_cases t.id now u.body with ⟨-, hb⟩ | ⟨b, -, hb⟩ <;> rw [hb] at he
    · simp at he
    · simp only [List.mem_singleton] at he; subst he
      exact ⟨rfl, rfl⟩
  · rcases evEpic_ok h3 with ⟨-, rfl⟩ | ⟨x, hx, hE, rfl⟩
    · simp at he
    · simp only [List.mem_singleton] at he; subst he
      exact ⟨rfl, rfl, hE, hR x hx hE⟩
  · rcases evClaim_ok h4 with ⟨-, rfl⟩ | ⟨cv, -, -, rfl⟩ | ⟨-, -, -, rfl⟩ | ⟨cv, -, -, -, rfl⟩
    · simp at he
    · simp at he
    · simp only [List.mem_singleton] at he; subst he
      exact rfl
    · simp only [List.mem_singleton] at he; subst he
      exact ⟨rfl, rfl⟩
  · rcases evState_ok h5 with ⟨-, rfl⟩ | ⟨s, -, -, -, -, rfl⟩
    · simp at he
    · simp only [List.mem_singleton] at he; subst he
      exact ⟨rfl, rfl⟩
  · rcases evTrail_ok h6 with ⟨-, rfl⟩ | ⟨-, -, rfl⟩
    · simp at he
    · simp only [List.mem_singleton] at he; subst he
      exact ⟨rfl, rfl⟩

theorem resultEvent_ok {t : Task} {s : String} {po : PathOutcome} {now : Time} {e : Event}
    (h : resultEvent t s po now = .ok e) :
    t.isEpic = false ∧ ∃ su pa sh mt gi, e = Event.result t.id su pa sh mt gi (some now) := by
  unfold resultEvent at h
  cases hE : t.isEpic
  · cases hs : resultSummaryOk s
    · simp [hE, hs, bind, Except.bind, throw, throwThe, MonadExceptOf.throw] at h
    · cases po with
      | rejected why => simp [hE, hs, throw, throwThe, MonadExceptOf.throw] at h
      | ok c sh mt gi =>
        simp [hE, hs, pure, Except.pure] at h
        exact ⟨rfl, _, _, _, _, _, h.symm⟩
  · simp [hE, bind, Except.bind, throw, throwThe, MonadExceptOf.throw] at h

def updRes (t : Task) (r : SetReq) (po : PathOutcome) (now : Time) : Except CmdErr (List Event) :=
  match r.resultPath, r.resultSummary with
  | some _, some s => (resultEvent t s po now).map fun e => [e]
  | _, _ => pure []

def updRest (g : Graph) (t : Task) (r : SetReq) (agent : String) (now : Time) (evRes : List Event) :
    Except CmdErr (List Event) := do
  if r.u.isEmpty then return evRes
  if t.isEpic && r.u.state.isSome then throw .epicNoState
  if t.isEpic && r.u.claim.isSome then throw .epicNoClaim
  match r.u.epic with
  | none => pure ()
  | some e =>
    if e != "" && !t.isEpic then
      if g.tombed e then throw (.pruned e)
      match g.find? e with
      | none => throw .unknownEpic
      | some ep => if !ep.isEpic then throw .notEpic
  let evs ← buildSetEvents t r.u agent now
  pure (evRes ++ evs)

theorem updateEvents_eq (g : Graph) (t : Task) (r : SetReq) (agent : String) (po : PathOutcome) (now : Time) :
    updateEvents g t r agent po now = (updRes t r po now).bind (updRest g t r agent now) := by
  rcases r with ⟨u, rp, rs⟩
  cases rp <;> cases rs <;> rfl

theorem updRes_ok {t : Task} {r : SetReq} {po : PathOutcome} {now : Time} {l : List Event} (h : updRes t r po now = .ok l) :
    l = [] ∨ (t.isEpic = false ∧ ∃ su pa sh mt gi, l = [Event.result t.id su pa sh mt gi (some now)]) := by
  unfold updRes at h
  split at h
  · rename_i s _ _
    cases hr : resultEvent t s po now with
    | error x => simp [hr, Except.map] at h
    | ok e =>
      simp [hr, Except.map] at h
      obtain ⟨hE, su, pa, sh, mt, gi, rfl⟩ := resultEvent_ok hr
      right; exact ⟨hE, su, pa, sh, mt, gi, h.symm⟩
  · left; simpa [pure, Except.pure] using h.symm

theorem updRest_ok {g : Graph} {t : Task} {r : SetReq} {agent : String} {now : Time} {evRes evs : List Event}
    (h : updRest g t r agent now evRes = .ok evs) :
    (r.u.isEmpty = true ∧ evs = evRes) ∨
    (∃ evSet, buildSetEvents t r.u agent now = .ok evSet ∧ evs = evRes ++ evSet ∧
      (t.isEpic = true → r.u.state = none ∧ r.u.claim = none) ∧
      (∀ e, r.u.epic = some e → t.isEpic = false → e = "" ∨ ∃ ep, g.find? e = some ep ∧ ep.isEpic = true)) := by
  unfold updRest at h
  simp only [bind, Except.bind, pure, Except.pure, throw, throwThe, MonadExceptOf.throw] at h
  split at h
  · left; rename_i he; injection h with h; exact ⟨he, h.symm⟩
  · right
    split at h
    · cases h
    · rename_i hs
      split at h
      · cases h
      · rename_i hc
        have hep : t.isEpic = true → r.u.state = none ∧ r.u.claim = none := by
          intro hE
          simp only [hE, Bool.true_and, Option.isSome_iff_ne_none, ne_eq, Decidable.not_not] at hs hc
          exact ⟨hs, hc⟩
        split at h
        · rename_i hn
          cases hb : buildSetEvents t r.u agent now with
          | error x => rw [hb] at h; cases h
          | ok v =>
            rw [hb] at h; injection h with h; subst h
            exact ⟨v, rfl, rfl, hep, by intro e he; rw [hn] at he; cases he⟩
        · rename_i e hn
          split at h
          · rename_i hcond
            split at h
            · cases h
            · split at h
              · cases h
              · rename_i ep hf
                split at h
                · cases h
                · rename_i hepic
                  cases hb : buildSetEvents t r.u agent now with
                  | error x => rw [hb] at h; cases h
                  | ok v =>
                    rw [hb] at h; injection h with h; subst h
                    refine ⟨v, rfl, rfl, hep, ?_⟩
                    intro e' he' _
                    rw [hn] at he'; injection he' with he'; subst he'
                    right; exact ⟨ep, hf, by simpa using hepic⟩
          · rename_i hcond
            cases hb : buildSetEvents t r.u agent now with
            | error x => rw [hb] at h; cases h
            | ok v =>
              rw [hb] at h; injection h with h; subst h
              refine ⟨v, rfl, rfl, hep, ?_⟩
              intro e' he' hE
              rw [hn] at he'; injection he' with he'; subst he'
              left
              simpa [hE] using hcond
/-- "" or the id of a live epic of `g` -/
def EpicRef (g : Graph) (x : Id) : Prop := x = "" ∨ ∃ ep ∈ g.tasks, ep.id = x ∧ ep.isEpic = true

theorem updateEvents_task {g : Graph} {t : Task} {r : SetReq} {agent : String} {po : PathOutcome} {now : Time}
    {evs : List Event} (h : updateEvents g t r agent po now = .ok evs) (hinv : TaskInv t) :
    (∀ e ∈ evs, GoodEv t.id now t.isEpic (EpicRef g) e) ∧ TaskInv (evs.foldl stepTask t) := by
  rw [updateEvents_eq] at h
  cases hres : updRes t r po now with
  | error x => rw [hres] at h; cases h
  | ok evRes =>
    rw [hres] at h
    simp only [Except.bind] at h
    have hgoodRes : ∀ e ∈ evRes, GoodEv t.id now t.isEpic (EpicRef g) e := by
      rcases updRes_ok hres with rfl | ⟨-, su, pa, sh, mt, gi, rfl⟩
      · simp
      · intro e he; simp only [List.mem_singleton] at he; subst he; exact ⟨rfl, rfl⟩
    have hsc : SameSC t (evRes.foldl stepTask t) := by
      rcases updRes_ok hres with rfl | ⟨-, su, pa, sh, mt, gi, rfl⟩
      · exact ⟨rfl, rfl, rfl⟩
      · exact ⟨rfl, rfl, rfl⟩
    rcases updRest_ok h with ⟨-, rfl⟩ | ⟨evSet, hb, rfl, hep, hR⟩
    · exact ⟨hgoodRes, TaskInv_congr hsc hinv⟩
    · constructor
      · intro e he
        rcases List.mem_append.1 he with he | he
        · exact hgoodRes e he
        · refine buildSetEvents_good hb ?_ e he
          intro x hx hE
          rcases hR x hx hE with rfl | ⟨ep, hf, hepE⟩
          · exact Or.inl rfl
          · right
            exact ⟨ep, List.mem_of_find?_eq_some hf, by simpa using List.find?_some hf, hepE⟩
      · rw [List.foldl_append]
        exact TaskInv_congr (foldl_SameSC evSet hsc) (set_task_inv t r.u agent now evSet hinv hep hb).1
end Ergo
