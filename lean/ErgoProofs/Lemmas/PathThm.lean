/-
  WP14 — C20/C18: lexical path facts.  Definitions: ErgoModel/Path.lean (splitSlash, joinSlash, isAbs, dotdot, cleanStep, clean,
  join, dir, base, hasPrefix, containsSub, Kind, PathErr, ergoName, validateResultPath, resolveWalk, absPath, resolveErgoDir, eventsFile, initFiles).
  Paths are `List Char`.
-/
import ErgoModel.Path
namespace Ergo.Path

/-- a component that `Clean` keeps as a name -/
def IsName (c : P) : Prop := c ≠ [] ∧ c ≠ ['.'] ∧ c ≠ dotdot ∧ '/' ∉ c

theorem splitSlash_ne_nil (p : P) : splitSlash p ≠ [] := by
  cases p with
  | nil => simp [splitSlash]
  | cons c cs =>
    simp only [splitSlash]
    split
    · simp
    · split <;> simp

theorem splitSlash_cons (c : Char) (cs : P) : ∃ l ls, splitSlash cs = l :: ls ∧
    splitSlash (c :: cs) = if c == '/' then [] :: l :: ls else (c :: l) :: ls := by
  cases h : splitSlash cs with
  | nil => exact absurd h (splitSlash_ne_nil cs)
  | cons l ls => exact ⟨l, ls, rfl, by rw [splitSlash, h]⟩

theorem splitSlash_join (p : P) : joinSlash (splitSlash p) = p := by
  induction p with
  | nil => simp [splitSlash, joinSlash]
  | cons c cs ih =>
    obtain ⟨l, ls, h1, h2⟩ := splitSlash_cons c cs
    rw [h1] at ih
    rw [h2]
    by_cases hc : c = '/'
    · subst hc
      simp [joinSlash, ih]
    · simp [hc]
      cases ls with
      | nil => simpa [joinSlash] using ih
      | cons l' ls' => simpa [joinSlash] using ih

theorem splitSlash_no_slash (p : P) : ∀ c ∈ splitSlash p, '/' ∉ c := by
  induction p with
  | nil => simp [splitSlash]
  | cons c cs ih =>
    obtain ⟨l, ls, h1, h2⟩ := splitSlash_cons c cs
    rw [h1] at ih
    rw [h2]
    by_cases hc : c = '/'
    · subst hc
      intro x hx
      simp at hx
      rcases hx with rfl | rfl | hx
      · simp
      · exact ih _ (by simp)
      · exact ih _ (by simp [hx])
    · intro x hx
      simp [hc] at hx
      rcases hx with rfl | hx
      · have := ih l (by simp)
        simp [this]
        exact fun h => hc h.symm
      · exact ih _ (by simp [hx])

theorem cleanStep_inv (st : List P × Nat) (comp : P) (hc : '/' ∉ comp) (h : ∀ c ∈ st.1, IsName c) :
    ∀ c ∈ (cleanStep false st comp).1, IsName c := by
  obtain ⟨out, ups⟩ := st
  unfold cleanStep
  simp only
  split
  · exact h
  · rename_i h1
    split
    · split
      · intro c hc'; exact h c (List.dropLast_subset _ hc')
      · simpa using h
    · rename_i h2
      intro c hc'
      simp at hc'
      rcases hc' with hc' | rfl
      · exact h c hc'
      · simp at h1 h2
        exact ⟨h1.1, h1.2, h2, hc⟩

theorem foldl_cleanStep_inv (comps : List P) (hcs : ∀ c ∈ comps, '/' ∉ c) (st : List P × Nat)
    (h : ∀ c ∈ st.1, IsName c) :
    ∀ c ∈ (comps.foldl (cleanStep false) st).1, IsName c := by
  induction comps generalizing st with
  | nil => simpa using h
  | cons x xs ih =>
    simp only [List.foldl_cons]
    exact ih (fun c hc => hcs c (by simp [hc])) _ (cleanStep_inv st x (hcs x (by simp)) h)

theorem clean_rel_eq (p : P) (hrel : isAbs p = false) (hne : p ≠ []) :
    ∃ (ups : Nat) (out : List P), (∀ c ∈ out, IsName c) ∧
      clean p = if (List.replicate ups dotdot ++ out).isEmpty then ['.'] else joinSlash (List.replicate ups dotdot ++ out) := by
  have hinv := foldl_cleanStep_inv (splitSlash p) (splitSlash_no_slash p) ([],0) (by simp)
  generalize hst : (splitSlash p).foldl (cleanStep false) ([], 0) = st at hinv
  obtain ⟨out, ups⟩ := st
  refine ⟨ups, out, hinv, ?_⟩
  unfold clean
  simp [hne, hrel, hst]

/-- Go's Clean puts every surviving ".." in front: a cleaned *relative* path is k copies of ".." followed by names -/
theorem clean_shape (p : P) (hrel : isAbs p = false) (hne : p ≠ []) :
    ∃ (k : Nat) (names : List P), (∀ c ∈ names, IsName c) ∧
      ((k = 0 ∧ names = [] ∧ clean p = ['.']) ∨ ((k ≠ 0 ∨ names ≠ []) ∧ clean p = joinSlash (List.replicate k dotdot ++ names))) := by
  obtain ⟨ups, out, hinv, hc⟩ := clean_rel_eq p hrel hne
  refine ⟨ups, out, hinv, ?_⟩
  rw [hc]
  by_cases h : ups = 0 ∧ out = []
  · left
    obtain ⟨rfl, rfl⟩ := h
    simp
  · right
    have h' : ups ≠ 0 ∨ out ≠ [] := by
      by_cases h0 : ups = 0
      · right; intro h1; exact h ⟨h0, h1⟩
      · left; exact h0
    refine ⟨h', ?_⟩
    have : (List.replicate ups dotdot ++ out).isEmpty = false := by
      rcases h' with h' | h'
      · cases ups with
        | zero => exact absurd rfl h'
        | succ n => simp [List.replicate_succ]
      · cases out with
        | nil => exact absurd rfl h'
        | cons a b => simp
    simp [this]

theorem splitSlash_head (p x : P) (h : (splitSlash p).head? = some x) :
    p = x ∨ ∃ rest, p = x ++ '/' :: rest := by
  induction p generalizing x with
  | nil => simp [splitSlash] at h; left; exact h.symm
  | cons c cs ih =>
    obtain ⟨l, ls, h1, h2⟩ := splitSlash_cons c cs
    rw [h2] at h
    by_cases hc : c = '/'
    · subst hc
      simp at h
      subst h
      right; exact ⟨cs, rfl⟩
    · simp [hc] at h
      subst h
      rcases ih l (by simp [h1]) with h | ⟨rest, h⟩
      · left; rw [h]
      · right; exact ⟨rest, by rw [h]; rfl⟩

theorem containsSub_iff (p sub : P) :
    containsSub p sub = true ↔ ∃ i, i ≤ p.length ∧ sub.isPrefixOf (p.drop i) = true := by
  simp [containsSub, List.any_eq_true, List.mem_range, Nat.lt_succ_iff]

theorem containsSub_of_prefix (p sub : P) (h : sub.isPrefixOf p = true) : containsSub p sub = true :=
  (containsSub_iff p sub).2 ⟨0, Nat.zero_le _, by simpa using h⟩

theorem containsSub_cons (c : Char) (p sub : P) (h : containsSub p sub = true) : containsSub (c :: p) sub = true := by
  obtain ⟨i, hi, hp⟩ := (containsSub_iff p sub).1 h
  exact (containsSub_iff _ sub).2 ⟨i + 1, by simpa using hi, by simpa using hp⟩

theorem splitSlash_tail (p x : P) (h : x ∈ (splitSlash p).tail) : containsSub p ('/' :: x) = true := by
  induction p with
  | nil => simp [splitSlash] at h
  | cons c cs ih =>
    obtain ⟨l, ls, h1, h2⟩ := splitSlash_cons c cs
    rw [h2] at h
    rw [h1] at ih
    by_cases hc : c = '/'
    · subst hc
      simp at h
      rcases h with rfl | h
      · apply containsSub_of_prefix
        have : x <+: cs := by
          rcases splitSlash_head cs x (by simp [h1]) with h | ⟨rest, h⟩
          · rw [h]; exact List.prefix_refl _
          · rw [h]; exact List.prefix_append _ _
        simpa [List.isPrefixOf_iff_prefix] using this
      · exact containsSub_cons _ _ _ (ih (by simpa using h))
    · simp [hc] at h
      exact containsSub_cons _ _ _ (ih (by simpa using h))

theorem hasPrefix_of_head (p x : P) (h : (splitSlash p).head? = some x) : hasPrefix p x = true := by
  unfold hasPrefix
  rw [List.isPrefixOf_iff_prefix]
  rcases splitSlash_head p x h with h | ⟨rest, h⟩
  · rw [h]; exact List.prefix_refl _
  · rw [h]; exact List.prefix_append _ _

theorem ergo_of_head (p x : P) (h : (splitSlash p).head? = some x) :
    (hasPrefix p (x ++ ['/']) || p == x) = true := by
  rcases splitSlash_head p x h with h | ⟨rest, h⟩
  · simp [h]
  · have : hasPrefix p (x ++ ['/']) = true := by
      unfold hasPrefix
      rw [List.isPrefixOf_iff_prefix, h]
      exact ⟨rest, by simp⟩
    simp [this]

/-- C20 confinement: an accepted result path is the cleaned input, is relative, has no ".." component, does not start with
    the `.ergo` component, and names an existing regular file under the project root -/
theorem validate_confined (fs : P → Kind) (repo rel c : P) (h : validateResultPath fs repo rel = .ok c) :
    c = clean rel ∧ isAbs c = false ∧ (∀ comp ∈ splitSlash c, comp ≠ dotdot) ∧ (splitSlash c).head? ≠ some ergoName ∧
    fs (join [repo, c]) = .file := by
  unfold validateResultPath at h
  simp only at h
  split at h
  · cases h
  rename_i habs
  split at h
  · cases h
  rename_i hout
  split at h
  · cases h
  rename_i hergo
  split at h <;> try (cases h)
  rename_i hfile
  refine ⟨rfl, by simpa using habs, ?_, ?_, hfile⟩
  · intro comp hcomp hdd
    subst hdd
    apply hout
    cases hs : splitSlash (clean rel) with
    | nil => exact absurd hs (splitSlash_ne_nil _)
    | cons l ls =>
      rw [hs] at hcomp
      simp at hcomp
      rcases hcomp with rfl | hcomp
      · simp [hasPrefix_of_head (clean rel) dotdot (by simp [hs])]
      · simp [splitSlash_tail (clean rel) dotdot (by simp [hs, hcomp])]
  · intro hh
    exact hergo (ergo_of_head _ _ hh)

/-- anything whose cleaned form leaves the project (starts with "..") or is absolute or enters .ergo is refused -/
theorem validate_rejects_escape (fs : P → Kind) (repo rel : P)
    (h : isAbs (clean rel) = true ∨ (splitSlash (clean rel)).head? = some dotdot ∨ (splitSlash (clean rel)).head? = some ergoName) :
    ∃ e, validateResultPath fs repo rel = .error e := by
  unfold validateResultPath
  simp only
  split
  · exact ⟨_, rfl⟩
  rename_i habs
  split
  · exact ⟨_, rfl⟩
  rename_i hout
  split
  · exact ⟨_, rfl⟩
  rename_i hergo
  exfalso
  rcases h with h | h | h
  · exact habs h
  · exact hout (by simp [hasPrefix_of_head _ _ h])
  · exact hergo (ergo_of_head _ _ h)

/-- C18: discovery depends only on the absolute directory a spelling denotes -/
theorem resolve_spelling (fs : P → Kind) (cwd s1 s2 : P) (h : absPath cwd s1 = absPath cwd s2) :
    resolveErgoDir fs cwd s1 = resolveErgoDir fs cwd s2 := by
  unfold resolveErgoDir
  rw [h]

/-- `dir` applied k times -/
def iterDir : Nat → P → P
  | 0, p => p
  | k + 1, p => iterDir k (dir p)

/-- … the nearest one: no directory between the start and the answer has a `.ergo` entry of any kind -/
theorem resolveWalk_nearest (fs : P → Kind) (n : Nat) (start d : P) (h : resolveWalk fs n start = some (.ok d)) :
    ∃ k, d = join [iterDir k start, ergoName] ∧ ∀ j, j < k → fs (join [iterDir j start, ergoName]) = .missing := by
  induction n generalizing start with
  | zero => simp [resolveWalk] at h
  | succ n ih =>
    unfold resolveWalk at h
    simp only at h
    split at h
    · injection h with h
      injection h with h
      exact ⟨0, by simp [iterDir, h], by intro j hj; omega⟩
    · rename_i hm
      split at h
      · cases h
      · obtain ⟨k, hk, hj⟩ := ih _ h
        refine ⟨k + 1, by simpa [iterDir] using hk, ?_⟩
        intro j hlt
        cases j with
        | zero => simpa [iterDir] using hm
        | succ j => simpa [iterDir] using hj j (by omega)
    · cases h
    · cases h

/-- the walk answers with a `.ergo` directory that exists, directly under the start or one of the directories the
    walk climbed through -/
theorem resolveWalk_sound (fs : P → Kind) (n : Nat) (start d : P) (h : resolveWalk fs n start = some (.ok d)) :
    fs d = .dir ∧ ∃ k, d = join [iterDir k start, ergoName] := by
  induction n generalizing start with
  | zero => simp [resolveWalk] at h
  | succ n ih =>
    unfold resolveWalk at h
    simp only at h
    split at h
    · rename_i hd
      injection h with h
      injection h with h
      subst h
      exact ⟨hd, 0, by simp [iterDir]⟩
    · split at h
      · cases h
      · obtain ⟨hd, k, hk⟩ := ih _ h
        exact ⟨hd, k + 1, by simpa [iterDir] using hk⟩
    · cases h
    · cases h

/-- C18 `init` on an existing store: the file every command reads stays the same file, and a second init changes nothing -/
theorem init_keeps_log (plans events lock : Bool) (h : plans = true ∨ events = true) :
    let (p', e', _) := initFiles plans events lock
    eventsFile p' e' = eventsFile plans events := by
  cases plans <;> cases events <;> cases lock <;> simp_all [initFiles, eventsFile]

theorem init_idempotent (plans events lock : Bool) :
    let (p', e', l') := initFiles plans events lock
    initFiles p' e' l' = (p', e', l') := by
  cases plans <;> cases events <;> cases lock <;> simp [initFiles]

end Ergo.Path
