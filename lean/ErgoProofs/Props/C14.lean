import ErgoModel.Exec
namespace Ergo
theorem C14_placeholder : True := trivial
end Ergo
