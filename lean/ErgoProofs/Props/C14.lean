/-
  C14 — Every task's epic reference names a live epic.
-/
import ErgoProofs.Lemmas.ReachInv
import ErgoProofs.Lemmas.PropsAux
import ErgoProofs.Lemmas.DiskInv
import ErgoProofs.Lemmas.DiskConc
namespace Ergo

/-- at all times each task's epic is empty or the id of an existing, unpruned epic; epics belong to nothing -/
theorem C14_inv_reach (log : List Event) (h : ReachOK log) : ∃ g, replay log = .ok g ∧ Inv14 g ∧ WF g := by
  obtain ⟨g, hr, hinv⟩ := reach_replay log h
  exact ⟨g, hr, hinv.i14, hinv.ok.wf⟩

/-- updating a task with an epic id that is pruned, unknown, or the id of a plain task is rejected (nothing is written) -/
theorem C14_set_rejects_bad_epic (g : Graph) (t : Task) (e : Id) (r : SetReq) (agent : String) (po : PathOutcome) (now : Time)
    (ht : t.isEpic = false) (he : e ≠ "") (hr : r.u.epic = some e) (hres : r.resultPath = none)
    (hbad : g.tombed e = true ∨ g.find? e = none ∨ ∃ x, g.find? e = some x ∧ x.isEpic = false) :
    ∃ err, updateEvents g t r agent po now = .error err :=
  set_rejects_bad_epic g t e r agent po now ht he hr hres hbad

/-- creating a task under an id that is unknown, pruned or a plain task is rejected -/
theorem C14_create_rejects_bad_epic (g : Graph) (epicId title body : String) (follow : SetReq) (ids : List Id) (uuid agent : String)
    (po : PathOutcome) (now : Time) (he : epicId ≠ "")
    (hbad : g.find? epicId = none ∨ ∃ x, g.find? epicId = some x ∧ x.isEpic = false) :
    ∃ err, secCreate g false epicId title body follow ids uuid agent po now = .error err :=
  create_rejects_bad_epic g epicId title body follow ids uuid agent po now he hbad

/-- prune never removes an epic that a remaining task still references -/
theorem C14_prune_keeps_referenced_epics (g : Graph) (hwf : WF g) (t e : Task) (ht : t ∈ g.tasks) (he : e ∈ g.tasks)
    (hte : t.isEpic = false) (hee : e.isEpic = true) (href : t.epicId = e.id) (hne : e.id ≠ "")
    (hkeep : t.id ∉ pruneTargets g) : e.id ∉ pruneTargets g :=
  prune_keeps_referenced_epics g hwf t e ht he hte hee href hne hkeep

/-- the same about what is **on disk**: after any command history the bytes of the store read back (real line format) to a log in whose
    graph every task's epic is empty or names a live epic -/
theorem C14_inv_holds_of_the_bytes_on_disk {limit : Nat} {log : List Event} {f : Storage.Bytes} (h : Codec.DiskReach limit log f) :
    ∃ g, Storage.readEvents Codec.classifyLine limit f = .ok log ∧ replay log = .ok g ∧ Inv14 g := by
  obtain ⟨g, hf, hr, hinv⟩ := Codec.disk_allInv h
  exact ⟨g, hf, hr, hinv.i14⟩

/-- "at all times" includes concurrent runs, on the bytes (e.g. `prune` racing `new task --epic`): any schedule of ergo's own lock sections in
    the byte-level process system, deaths between system calls — the file reads back to a log in whose graph every epic reference is live -/
theorem C14_inv_concurrent_on_disk (f : Storage.Bytes) (log0 : List Event) (envs : List (Env × Sec)) (nr limit : Nat)
    (ets : Event → String) (hf : Storage.readEvents Codec.classifyLine limit f = .ok log0) (hfw : Codec.AllWf log0) (h0 : SecReach log0)
    (hok : ∀ es ∈ envs, SecOK es.1 es.2) (hT : ∀ es ∈ envs, Codec.EnvT es.1)
    (s : ProcB.BSys) (h : ProcB.BReachableNT (ProcB.BSys.init f (envs.map fun (es : Env × Sec) => secDecide es.1 es.2) nr limit ets) s)
    (hclock : ∀ (i p : Nat) (snap : List Event) (w : Write) (g : Graph), s.commits[i]? = some (p, snap, w) → replayRaw snap = .ok g →
               ∀ es : Env × Sec, envs[p]? = some es → EnvOK g es.1) :
    ∃ L g, Storage.readEvents Codec.classifyLine limit s.file = .ok L ∧ replayRaw L = .ok g ∧ Inv14 g := by
  obtain ⟨L, g, hl, hg, hinv⟩ := ProcB.conc_disk_allInv f log0 envs nr limit ets hf hfw h0 hok hT s h hclock
  exact ⟨L, g, hl, hg, hinv.i14⟩

end Ergo
