/-
  C14 — Every task's epic reference names a live epic.
-/
import ErgoProofs.Lemmas.ReachInv
namespace Ergo

/-- at all times each task's epic is empty or the id of an existing, unpruned epic; epics belong to nothing -/
theorem C14_inv_reach (log : List Event) (h : ReachOK log) : ∃ g, replay log = .ok g ∧ Inv14 g ∧ WF g := by
  obtain ⟨g, hr, hinv⟩ := reach_replay log h
  exact ⟨g, hr, hinv.i14, hinv.ok.wf⟩

end Ergo
