/-
  C07 — The dependency graph stays acyclic, same-kind and between live items.
-/
import ErgoProofs.Lemmas.ConcReach
import ErgoProofs.Lemmas.DiskInv
import ErgoProofs.Lemmas.DiskConc
namespace Ergo

/-- the cycle test is exact: `hasCycle g f t` ⇔ adding f→t would close a cycle (f = t or t ⇝ f) -/
theorem C07_cycle_test_exact (g : Graph) (f t : Id) : hasCycle g f t = true ↔ f = t ∨ Path g.deps t f :=
  hasCycle_iff g f t

/-- after any sequence of commands: no cycle, no self-edge, edges only between live items of the same kind, none at a pruned id -/
theorem C07_inv_reach (log : List Event) (h : ReachOK log) :
    ∃ g, replay log = .ok g ∧ Inv07 g ∧ (∀ e ∈ g.deps, e.1 ≠ e.2) ∧ (∀ e ∈ g.deps, e.1 ∉ g.tombs ∧ e.2 ∉ g.tombs) := by
  obtain ⟨g, hr, hinv⟩ := reach_replay log h
  refine ⟨g, hr, hinv.i07, ?_, hinv.ok.wf.deps_not_tombed⟩
  intro e he hee
  have := hinv.i07.acyclic e.1 e.2 (by simpa using he)
  exact this (hee ▸ Path.refl e.1)

/-- … and after any interleaving of concurrent commands (in particular concurrent `sequence`s with opposite edges) -/
theorem C07_inv_concurrent (log0 : List Event) (envs : List (Env × Sec)) (nr : Nat) (s : Proc.Sys)
    (h : Proc.Reachable (Proc.Sys.init log0 (envs.map fun (es : Env × Sec) => secDecide es.1 es.2) nr) s)
    (h0 : SecReach log0) (hok : ∀ es ∈ envs, SecOK es.1 es.2)
    (hclock : ∀ (i p : Nat) (snap : List Event) (w : Write) (g : Graph), s.commits[i]? = some (p, snap, w) → replayRaw snap = .ok g →
               ∀ es : Env × Sec, envs[p]? = some es → EnvOK g es.1) :
    ∃ g, replayRaw s.log = .ok g ∧ Inv07 g := by
  obtain ⟨g, hr, hinv⟩ := secReach_allInv _ (conc_secReach log0 envs nr s h h0 hok hclock)
  exact ⟨g, hr, hinv.i07⟩

/-- an accepted edge request satisfies every rule; a request breaking one is refused -/
theorem C07_link_accepted_only_if (g : Graph) (f t : Id) (h : linkCheck g false f t = .ok ()) :
    g.tombed f = false ∧ g.tombed t = false ∧ f ≠ t ∧ ¬ Path g.deps t f ∧
    ∃ a b, g.find? f = some a ∧ g.find? t = some b ∧ a.isEpic = b.isEpic := by
  unfold linkCheck at h
  simp only [bind, Except.bind, pure, Except.pure, throw, throwThe, MonadExceptOf.throw] at h
  cases htf : g.tombed f <;> simp only [htf] at h
  · cases htt : g.tombed t <;> simp only [htt] at h
    · cases hf : g.find? f with
      | none => simp [hf] at h
      | some a =>
        cases hb : g.find? t with
        | none => simp [hf, hb] at h
        | some b =>
          simp only [hf, hb] at h
          by_cases hft : f = t
          · simp [hft] at h
          · by_cases hk : a.isEpic = b.isEpic
            · by_cases hcyc : hasCycle g f t = true
              · simp [hft, hk, hcyc] at h
              · refine ⟨rfl, rfl, hft, ?_, a, b, rfl, rfl, hk⟩
                intro hp
                exact hcyc ((hasCycle_iff g f t).2 (Or.inr hp))
            · have : (a.isEpic != b.isEpic) = true := by simpa using hk
              simp [hft, this] at h
    · simp at h
  · simp at h

/-- `sequence rm A B` removes exactly the edge B→A and nothing else -/
theorem C07_rm_exact (g : Graph) (a b : Id) (ha : g.tombed a = false) (hb : g.tombed b = false) :
    applyEvent g (.unlink b a true) = .ok { g with deps := g.deps.filter (· != (b, a)) } := by
  simp [applyEvent, ha, hb]

/-- deps and rdeps shown for two items mirror each other -/
theorem C07_mirror (g : Graph) (a b : Id) : a ∈ g.depsOf b ↔ b ∈ g.rdepsOf a := by
  simp only [Graph.depsOf, Graph.rdepsOf, List.mem_map, List.mem_filter]
  constructor
  · rintro ⟨e, ⟨he, h1⟩, h2⟩
    exact ⟨e, ⟨he, by simpa using h2⟩, by simpa using h1⟩
  · rintro ⟨e, ⟨he, h1⟩, h2⟩
    exact ⟨e, ⟨he, by simpa using h2⟩, by simpa using h1⟩

/-- the same about what is **on disk**: after any command history the bytes of the store read back (real line format) to a log whose
    graph has no cycle, no self-edge, and edges only between live items of the same kind -/
theorem C07_inv_holds_of_the_bytes_on_disk {limit : Nat} {log : List Event} {f : Storage.Bytes} (h : Codec.DiskReach limit log f) :
    ∃ g, Storage.readEvents Codec.classifyLine limit f = .ok log ∧ replay log = .ok g ∧ Inv07 g := by
  obtain ⟨g, hf, hr, hinv⟩ := Codec.disk_allInv h
  exact ⟨g, hf, hr, hinv.i07⟩

/-- … and under concurrency **on the bytes**: ergo's own lock sections as writers of the byte-level process system, lock-free readers, any
    schedule, deaths between system calls — the file under the log's name reads back (real line format) to a log whose graph is acyclic,
    same-kind and between live items -/
theorem C07_inv_concurrent_on_disk (f : Storage.Bytes) (log0 : List Event) (envs : List (Env × Sec)) (nr limit : Nat)
    (ets : Event → String) (hf : Storage.readEvents Codec.classifyLine limit f = .ok log0) (hfw : Codec.AllWf log0) (h0 : SecReach log0)
    (hok : ∀ es ∈ envs, SecOK es.1 es.2) (hT : ∀ es ∈ envs, Codec.EnvT es.1)
    (s : ProcB.BSys) (h : ProcB.BReachableNT (ProcB.BSys.init f (envs.map fun (es : Env × Sec) => secDecide es.1 es.2) nr limit ets) s)
    (hclock : ∀ (i p : Nat) (snap : List Event) (w : Write) (g : Graph), s.commits[i]? = some (p, snap, w) → replayRaw snap = .ok g →
               ∀ es : Env × Sec, envs[p]? = some es → EnvOK g es.1) :
    ∃ L g, Storage.readEvents Codec.classifyLine limit s.file = .ok L ∧ replayRaw L = .ok g ∧ Inv07 g := by
  obtain ⟨L, g, hl, hg, hinv⟩ := ProcB.conc_disk_allInv f log0 envs nr limit ets hf hfw h0 hok hT s h hclock
  exact ⟨L, g, hl, hg, hinv.i07⟩

end Ergo
