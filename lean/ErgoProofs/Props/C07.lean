import ErgoModel.Exec
namespace Ergo
theorem C07_placeholder : True := trivial
end Ergo
