import ErgoModel.Exec
namespace Ergo
theorem C05_placeholder : True := trivial
end Ergo
