/-
  C05 — compact changes nothing a reader can see.
-/
import ErgoProofs.Lemmas.ReachInv
import ErgoProofs.Lemmas.StorageThm
import ErgoProofs.Lemmas.CodecInst
import ErgoProofs.Lemmas.HalfClaim
import ErgoProofs.Lemmas.CompactAny
namespace Ergo

/-- for every history the CLI can produce: replaying the compacted log succeeds, every live item's observable data
    (state, claimant and claim time, title, body, epic, results in order, created/updated timestamps) and the edge set are
    identical, pruned ids stay absent (no tombstone and no item), and every invariant still holds -/
theorem C05_observables_preserved (log : List Event) (h : ReachOK log) :
    ∃ g g', replay log = .ok g ∧ replay (compactEvents g) = .ok g' ∧ ObsEq g' g ∧ g'.tombs = [] ∧
      (∀ i ∈ g.tombs, g'.has i = false) ∧ AllInv g' := by
  obtain ⟨g, hr, hinv⟩ := reach_replay log h
  obtain ⟨g', h1, hobs, ht, hok, h0⟩ := compact_replay' g hinv.ok hinv.epic0
  refine ⟨g, g', hr, h1, hobs, ht, ?_, allInv_of_obsEq hobs hok h0 hinv⟩
  intro i hi
  -- a pruned id is not live in g (WF), and ObsEq transfers "not found"
  have hnl : g.find? i = none := by
    cases hf : g.find? i with
    | none => rfl
    | some t =>
      have hm := List.find?_some hf
      have hmem := List.mem_of_find?_eq_some hf
      have : t.id = i := by simpa using hm
      exact absurd (this ▸ hi) (hinv.ok.wf.live_not_tombed t hmem)
  have := hobs.1 i
  rw [hnl] at this
  cases hf' : g'.find? i with
  | none =>
    simp only [Graph.has, List.any_eq_false]
    intro t ht hti
    have := List.find?_eq_none.1 hf' t ht
    exact this hti
  | some t => rw [hf'] at this; cases this

/-- ready / blocked flags are unchanged -/
theorem C05_flags_preserved (g g' : Graph) (hwf : WF g) (hwf' : WF g') (h : ObsEq g g') (t t' : Task)
    (ht : t ∈ g.tasks) (ht' : t' ∈ g'.tasks) (hid : t.id = t'.id) :
    isReady g t = isReady g' t' ∧ isBlocked g t = isBlocked g' t' :=
  obsEq_isReady g g' hwf hwf' h t t' ht ht' hid

/-- the order in which `claim` would hand tasks out is unchanged -/
theorem C05_claim_order_preserved (g g' : Graph) (hwf : WF g) (hwf' : WF g') (h : ObsEq g g') (epic : Id) :
    (readyTasks g epic).map (·.id) = (readyTasks g' epic).map (·.id) :=
  obsEq_readyOrder g g' hwf hwf' h epic

/-- compacting an already compacted log changes nothing: the event list is identical -/
theorem C05_idempotent (log : List Event) (h : ReachOK log) (g g' : Graph) (hr : replay log = .ok g)
    (hr' : replay (compactEvents g) = .ok g') : compactEvents g' = compactEvents g := by
  obtain ⟨g0, h0, hinv⟩ := reach_replay log h
  rw [hr] at h0; injection h0 with h0; subst h0
  exact compact_idempotent' g g' hinv.ok hinv.epic0 hr'

/-- commands issued after compaction keep every invariant: compaction is one more reachable step -/
theorem C05_compaction_is_a_reachable_step (log : List Event) (h : ReachOK log) (g : Graph) (hg : replayRaw log = .ok g)
    (env : Env) (henv : EnvOK g env) : ReachOK (runCmd log env .compact).log :=
  ReachOK.step env .compact h hg henv

/-- a log whose tail was torn by a crash: the fragment is invisible to compaction's read -/
theorem C05_torn_tail_irrelevant {classify : Storage.Bytes → Storage.LineClass} {limit : Nat} (f frag : Storage.Bytes)
    (hcl : Storage.Closed f) (hnl : Storage.NL ∉ frag) (hne : frag ≠ []) (hbad : classify (Storage.dropCR frag) = .bad)
    (hlen : frag.length < limit) :
    Storage.readEvents classify limit (f ++ frag) = Storage.readEvents classify limit f :=
  Storage.readEvents_fragment f frag hcl hnl hne hbad hlen


/-- what compaction writes can be read back: from a log of well-formed events, every event `compact` emits is well-formed, so (C12/C17) each of
    its lines decodes to the event it was written for — states, texts and time stamps included -/
theorem C05_compaction_writes_recoverable_events (log : List Event) (hl : Codec.AllWf log) (g : Graph) (h : replay log = .ok g) :
    Codec.AllWf (compactEvents g) :=
  Codec.compactEvents_wf g (Codec.replay_wf log hl g h)

/-- compaction re-writes every time stamp from its parsed value: the text it writes parses to the same instant -/
theorem C05_time_stamps_survive (t : Time) (h : t < Time.maxT) : Time.parse (Time.format t) = some t :=
  Time.parse_format t h

/-- for *every* task — also one that carries a claimant in a state that clears claims (a `claim` whose write was cut before its state line,
    a hand-merged log; outside `ReachOK`) — replaying the block compaction writes for it gives back its state and its claimant: the state
    event comes before the claim event (`fix: compact writes a task's state before its claim`, DESIGN §6; in the other order the claimant was
    lost, which this check found on the torn-claim histories) -/
theorem C05_state_and_claimant_survive_for_every_task (t : Task) :
    (rebuild t).st = t.st ∧ (rebuild t).claimedBy = t.claimedBy := by
  rw [rebuild_eq]; exact ⟨rfl, rfl⟩

/-- logs whose tail was torn by a crash *inside a claim's write*: the claim line is whole, its state line is lost.  The log — a CLI-reachable one
    plus that one claim event, for any id, agent and (non-zero) stamp — is not CLI-reachable itself (a todo task with a claimant), and compaction
    still changes nothing a reader can see: replaying the compacted log gives the same observables for every item, that task's claimant and claim
    time included.  (This is the case the pinned tree got wrong: §6, `93d8d19`.) -/
theorem C05_half_written_claim_preserved (log : List Event) (h : ReachOK log) (id agent : Id) (ts : Time) (hts : ts ≠ 0) :
    ∃ g g', replay (log ++ [Event.claim id agent (some ts)]) = .ok g ∧ replay (compactEvents g) = .ok g' ∧ ObsEq g' g ∧ g'.tombs = [] :=
  compact_half_claim log h id agent ts hts

/-- without any hypothesis on the log beyond "its event loop succeeds" — hand-merged logs, stamps in any order (a clock set back, a collaborator's fast
    clock), torn claims, items no CLI history produces: replaying the compacted log succeeds and every item, looked up by id, is what it was — kind,
    state, claimant, title, body, results in order with their evidence, creation time, a task's epic — and the edges are the same.  (What may move on
    such logs is `updated_at`, and the pruned ids' tombstones go: DESIGN §6.) -/
theorem C05_items_survive_compaction_of_any_log (log : List Event) (g : Graph) (hr : replayRaw log = .ok g) :
    ∃ g', replayRaw (compactEvents g) = .ok g' ∧ (∀ id, (g'.find? id).map Task.core = (g.find? id).map Task.core) ∧
      (∀ e, e ∈ g'.deps ↔ e ∈ g.deps) ∧ g'.tombs = [] :=
  compact_any_log log g hr

end Ergo
