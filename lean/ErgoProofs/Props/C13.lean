import ErgoModel.Exec
namespace Ergo
theorem C13_placeholder : True := trivial
end Ergo
