/-
  C13 — Readers never fail or see garbage while writers are active.
  Model: ErgoModel/Proc.lean — readers take no lock: they open the file the log name points to and read it; writers append a
  batch with one write(2) or switch the name to a complete new file (rename).  Assumption (trusted base): a concurrent
  reader sees a single write(2) entirely or not at all.
-/
import ErgoProofs.Lemmas.ConcReach
import ErgoProofs.Lemmas.StorageThm
import ErgoProofs.Lemmas.PropsAux
namespace Ergo
open Proc

/-- whenever a reader finishes, what it read is the log after some whole number of committed sections — a state the store
    actually passed through; never a mixture of an old and a new file, never an empty store that was not there -/
theorem C13_reader_sees_a_past_state {log0 : List Event} {ws : List (List Event → Except CmdErr Write)} {nr : Nat} {s : Sys}
    (h : Reachable (Sys.init log0 ws nr) s) (r : Nat) (seen : List Event)
    (hr : s.readers[r]? = some (.done seen)) : ∃ k, k ≤ s.commits.length ∧ seen = logAfter log0 s.commits k :=
  reader_sees_history h r seen hr

/-- … hence a state satisfying every invariant (the reader can always replay it) -/
theorem C13_reader_state_is_valid (log0 : List Event) (envs : List (Env × Sec)) (nr : Nat) (s : Sys)
    (h : Reachable (Sys.init log0 (envs.map fun (es : Env × Sec) => secDecide es.1 es.2) nr) s)
    (h0 : SecReach log0) (hok : ∀ es ∈ envs, SecOK es.1 es.2)
    (hclock : ∀ (i p : Nat) (snap : List Event) (w : Write) (g : Graph), s.commits[i]? = some (p, snap, w) → replayRaw snap = .ok g →
               ∀ es : Env × Sec, envs[p]? = some es → EnvOK g es.1)
    (r : Nat) (seen : List Event) (hr : s.readers[r]? = some (.done seen)) :
    ∃ g, replay seen = .ok g ∧ AllInv g :=
  reader_state_valid log0 envs nr s h h0 hok hclock r seen hr

/-- the ghost history is exactly the sequence of log values -/
theorem C13_history_is_the_sequence_of_logs {log0 : List Event} {ws : List (List Event → Except CmdErr Write)} {nr : Nat} {s : Sys}
    (h : Reachable (Sys.init log0 ws nr) s) :
    s.history.length = s.commits.length + 1 ∧ ∀ k, k ≤ s.commits.length → s.history[k]? = some (logAfter log0 s.commits k) :=
  history_is_logs h

/-- byte level: a reader that catches a writer killed inside its write sees everything from before plus whole lines only -/
theorem C13_torn_tail_is_dropped {classify : Storage.Bytes → Storage.LineClass} {encode : Event → Storage.Bytes} {limit : Nat}
    (hc : Storage.Codec classify encode) (f : Storage.Bytes) (es evs : List Event) (k : Nat)
    (hr : Storage.readEvents classify limit f = .ok es) (hs : Storage.Short encode limit evs) :
    ∃ n, n ≤ evs.length ∧ Storage.readEvents classify limit (Storage.appendTorn classify encode f evs k) = .ok (es ++ evs.take n) :=
  Storage.appendTorn_reads hc f es evs k hr hs

end Ergo
