/-
  C13 — Readers never fail or see garbage while writers are active.
  Model: ErgoModel/Proc.lean — readers take no lock: they open the file the log name points to and read it; writers append a
  batch with one write(2) or switch the name to a complete new file (rename).  Assumption (trusted base): a concurrent
  reader sees a single write(2) entirely or not at all.
-/
import ErgoProofs.Lemmas.ConcReach
import ErgoProofs.Lemmas.StorageThm
import ErgoProofs.Lemmas.PropsAux
import ErgoProofs.Lemmas.ChunkedRead
import ErgoProofs.Lemmas.ProgramThm
import ErgoProofs.Lemmas.CodecInst
import ErgoProofs.Lemmas.ProcBytesThm
import ErgoProofs.Lemmas.DiskConc
namespace Ergo
open Proc

/-- whenever a reader finishes, what it read is the log after some whole number of committed sections — a state the store
    actually passed through; never a mixture of an old and a new file, never an empty store that was not there -/
theorem C13_reader_sees_a_past_state {log0 : List Event} {ws : List (List Event → Except CmdErr Write)} {nr : Nat} {s : Sys}
    (h : Reachable (Sys.init log0 ws nr) s) (r : Nat) (seen : List Event)
    (hr : s.readers[r]? = some (.done seen)) : ∃ k, k ≤ s.commits.length ∧ seen = logAfter log0 s.commits k :=
  reader_sees_history h r seen hr

/-- … hence a state satisfying every invariant (the reader can always replay it) -/
theorem C13_reader_state_is_valid (log0 : List Event) (envs : List (Env × Sec)) (nr : Nat) (s : Sys)
    (h : Reachable (Sys.init log0 (envs.map fun (es : Env × Sec) => secDecide es.1 es.2) nr) s)
    (h0 : SecReach log0) (hok : ∀ es ∈ envs, SecOK es.1 es.2)
    (hclock : ∀ (i p : Nat) (snap : List Event) (w : Write) (g : Graph), s.commits[i]? = some (p, snap, w) → replayRaw snap = .ok g →
               ∀ es : Env × Sec, envs[p]? = some es → EnvOK g es.1)
    (r : Nat) (seen : List Event) (hr : s.readers[r]? = some (.done seen)) :
    ∃ g, replay seen = .ok g ∧ AllInv g :=
  reader_state_valid log0 envs nr s h h0 hok hclock r seen hr

/-- the ghost history is exactly the sequence of log values -/
theorem C13_history_is_the_sequence_of_logs {log0 : List Event} {ws : List (List Event → Except CmdErr Write)} {nr : Nat} {s : Sys}
    (h : Reachable (Sys.init log0 ws nr) s) :
    s.history.length = s.commits.length + 1 ∧ ∀ k, k ≤ s.commits.length → s.history[k]? = some (logAfter log0 s.commits k) :=
  history_is_logs h

/-- byte level: a reader that catches a writer killed inside its write sees everything from before plus whole lines only -/
theorem C13_torn_tail_is_dropped {W : Event → Prop} {classify : Storage.Bytes → Storage.LineClass} {encode : Event → Storage.Bytes} {limit : Nat}
    (hc : Storage.CodecOn W classify encode) (f : Storage.Bytes) (es evs : List Event) (k : Nat)
    (hr : Storage.readEvents classify limit f = .ok es) (hs : Storage.Short W encode limit evs) :
    ∃ n, n ≤ evs.length ∧ Storage.readEvents classify limit (Storage.appendTorn classify encode f evs k) = .ok (es ++ evs.take n) :=
  Storage.appendTorn_reads hc f es evs k hr hs


/-! ### the reader reads in several `read(2)` calls — why `rRead` may be one step of the process model

`Proc.Step.rRead` hands a reader the whole content of the file it opened in one step.  The real reader collects it read by read while
writers go on.  That is the same thing exactly when the bytes of an open file never change: every writer only adds bytes at the end of the
log (one write per batch, or the newline completing an unterminated final event) and everything else — `plan`, `compact`, dropping the
fragment of a killed writer — goes to a new file renamed over the log (T1 `truncate_sites`, T3 "no ftruncate on the live log"). -/

/-- read by read from a file that only grows: what the reader holds is a prefix of the file's last content … -/
theorem C13_chunked_reader_sees_a_prefix (vs : List (Storage.Bytes × Nat)) (h : Storage.GrowsOnly (vs.map (·.1))) (hne : vs ≠ []) :
    Storage.chunkedRead vs [] <+: (vs.getLast hne).1 :=
  Storage.chunkedRead_prefix vs h hne

/-- … all of it once a read has reached end of file … -/
theorem C13_chunked_reader_complete (vs : List (Storage.Bytes × Nat)) (h : Storage.GrowsOnly (vs.map (·.1))) (hne : vs ≠ [])
    (heof : (vs.getLast hne).2 > (vs.getLast hne).1.length) :
    Storage.chunkedRead vs [] = (vs.getLast hne).1 :=
  Storage.chunkedRead_complete vs h hne heof

/-- … and while a batch is being appended it decodes to everything from before plus a whole number of the batch's events, never an error -/
theorem C13_chunked_reader_of_append {W : Event → Prop} {classify : Storage.Bytes → Storage.LineClass} {encode : Event → Storage.Bytes} {limit : Nat}
    (hc : Storage.CodecOn W classify encode) (f : Storage.Bytes) (es evs : List Event)
    (hr : Storage.readEvents classify limit f = .ok es) (hs : Storage.Short W encode limit evs) (hnl : f.isEmpty ∨ Storage.endsWithNL f = true)
    (vs : List (Storage.Bytes × Nat)) (hne : vs ≠ [])
    (hfirst : ∀ v ∈ vs, f <+: v.1 ∧ v.1 <+: Storage.appendFile classify encode f evs) (hgrow : Storage.GrowsOnly (vs.map (·.1)))
    (hall : f <+: Storage.chunkedRead vs []) :
    ∃ n, n ≤ evs.length ∧ Storage.readEvents classify limit (Storage.chunkedRead vs []) = .ok (es ++ evs.take n) :=
  Storage.chunkedRead_of_append hc f es evs hr hs hnl vs hne hfirst hgrow hall

/-- the defect repaired by 961c71f (refutation witness): if a writer may shrink the open file in place, the reader can hold bytes that were
    never the file's content and are not even a prefix of it -/
theorem C13_in_place_truncation_refuted :
    ∃ (v0 v1 : Storage.Bytes) (n0 n1 : Nat), ¬ (v0 <+: v1) ∧
      Storage.chunkedRead [(v0, n0), (v1, n1)] [] ≠ v0 ∧ Storage.chunkedRead [(v0, n0), (v1, n1)] [] ≠ v1 ∧
      ¬ (Storage.chunkedRead [(v0, n0), (v1, n1)] [] <+: v1) :=
  Storage.in_place_truncation_splices


/-- a reader's observed program (accepted by `readerOK`, T3) takes no lock and changes nothing -/
theorem C13_reader_program_is_pure (p : List Program.Call) (h : Program.readerOK p = true) :
    Program.abstract p = [] ∧ (∀ c ∈ p, Program.mutatesLog c = false) :=
  Program.readerOK_pure p h


/-- ergo's actual line format: a reader that catches a writer killed inside its write sees everything from before plus whole events only -/
theorem C13_torn_tail_is_dropped_json (ets : Event → String) {limit : Nat} (f : Storage.Bytes) (es evs : List Event) (k : Nat)
    (hr : Storage.readEvents Codec.classifyLine limit f = .ok es) (hs : Storage.Short Codec.Wf (Codec.encodeEvent ets) limit evs) :
    ∃ n, n ≤ evs.length ∧
      Storage.readEvents Codec.classifyLine limit (Storage.appendTorn Codec.classifyLine (Codec.encodeEvent ets) f evs k) = .ok (es ++ evs.take n) :=
  Storage.appendTorn_reads (Codec.jsonCodec ets) f es evs k hr hs


/-- a lock-free reader of *bytes*: in every run of the byte-level system (deaths between calls included) what a reader decoded is the log as it
    was after some number of committed sections -/
theorem C13_byte_reader_sees_a_past_state (f : Storage.Bytes) (ws : List (List Event → Except CmdErr Write)) (nr limit : Nat) (ets : Event → String)
    (es : List Event) (hf : Storage.readEvents Codec.classifyLine limit f = .ok es) (hfw : Codec.AllWf es)
    (hw : ∀ d ∈ ws, ∀ snap wr, Codec.AllWf snap → d snap = .ok wr → Codec.AllWf wr.events)
    (s : ProcB.BSys) (h : ProcB.BReachableNT (ProcB.BSys.init f ws nr limit ets) s) (r : Nat) (seen : List Event)
    (hr : s.readers[r]? = some (.done seen)) :
    ∃ k, k ≤ s.commits.length ∧ seen = Proc.logAfter es s.commits k := by
  obtain ⟨hreach, _⟩ := ProcB.reach_sim h (ProcB.inv_init f ws nr limit ets es hf hfw hw)
  rw [ProcB.abs_init, ProcB.decode_of_ok hf] at hreach
  exact C13_reader_sees_a_past_state hreach r seen hr

/-- … hence, with ergo's own lock sections as the writers, what a lock-free reader of the **bytes** decoded — under any schedule, with writers dying
    between their calls — replays and satisfies every invariant: `list`/`show` never work on a state the store was not in, and never on a broken one -/
theorem C13_byte_reader_state_is_valid (f : Storage.Bytes) (log0 : List Event) (envs : List (Env × Sec)) (nr limit : Nat)
    (ets : Event → String) (hf : Storage.readEvents Codec.classifyLine limit f = .ok log0) (hfw : Codec.AllWf log0) (h0 : SecReach log0)
    (hok : ∀ es ∈ envs, SecOK es.1 es.2) (hT : ∀ es ∈ envs, Codec.EnvT es.1)
    (s : ProcB.BSys) (h : ProcB.BReachableNT (ProcB.BSys.init f (envs.map fun (es : Env × Sec) => secDecide es.1 es.2) nr limit ets) s)
    (hclock : ∀ (i p : Nat) (snap : List Event) (w : Write) (g : Graph), s.commits[i]? = some (p, snap, w) → replayRaw snap = .ok g →
               ∀ es : Env × Sec, envs[p]? = some es → EnvOK g es.1)
    (r : Nat) (seen : List Event) (hr : s.readers[r]? = some (.done seen)) :
    ∃ g, replay seen = .ok g ∧ AllInv g :=
  ProcB.conc_disk_reader_valid f log0 envs nr limit ets hf hfw h0 hok hT s h hclock r seen hr

end Ergo
