import ErgoModel.Exec
namespace Ergo
theorem C03_placeholder : True := trivial
end Ergo
