/-
  C03 — A killed process never bricks the store or loses acknowledged work.
  Byte-level model: ErgoModel/Storage.lean.  `classify`/`encode` are arbitrary subject to `Codec` (checked against
  the real encoding/json by the differential harness); kernel: a killed write(2) leaves a prefix of its buffer.
-/
import ErgoProofs.Lemmas.StorageThm
namespace Ergo
open Storage

variable {classify : Bytes → LineClass} {encode : Event → Bytes} {limit : Nat}

/-- however many crashes (writes cut short at any byte offset), appends and rewrites alternate, starting from any
    readable file, every later read succeeds -/
theorem C03_always_readable (hc : Codec classify encode) (f g : Bytes) (es : List Event)
    (hr : readEvents classify limit f = .ok es) (h : FileReach classify encode limit f g) :
    ∃ es', readEvents classify limit g = .ok es' :=
  reach_readable hc f g es hr h

/-- everything visible before stays visible, in order: only the interrupted command's own events can be missing -/
theorem C03_acknowledged_kept (hc : Codec classify encode) (f g : Bytes) (es : List Event)
    (hr : readEvents classify limit f = .ok es) (h : AppendReach classify encode limit f g) :
    ∃ more, readEvents classify limit g = .ok (es ++ more) :=
  appendReach_prefix hc f g es hr h

/-- a later mutation on ANY readable (however torn) file takes effect completely and leaves the store readable and closed -/
theorem C03_later_mutation_takes_effect (hc : Codec classify encode) (f : Bytes) (es evs : List Event)
    (hr : readEvents classify limit f = .ok es) (hs : Short encode limit evs) :
    readEvents classify limit (appendFile classify encode f evs) = .ok (es ++ evs) ∧
    Closed (appendFile classify encode f evs) :=
  appendFile_reads hc f es evs hr hs

/-- a write cut short at byte k leaves everything from before plus a prefix of the interrupted batch -/
theorem C03_torn_write (hc : Codec classify encode) (f : Bytes) (es evs : List Event) (k : Nat)
    (hr : readEvents classify limit f = .ok es) (hs : Short encode limit evs) :
    ∃ n, n ≤ evs.length ∧ readEvents classify limit (appendTorn classify encode f evs k) = .ok (es ++ evs.take n) :=
  appendTorn_reads hc f es evs k hr hs

/-- the repair step itself loses nothing a reader could see -/
theorem C03_repair_invisible (f : Bytes) (es : List Event) (hr : readEvents classify limit f = .ok es) :
    readEvents classify limit (repairTail classify f) = .ok es ∧ Closed (repairTail classify f) :=
  readEvents_repairTail f es hr

end Ergo
