/-
  C03 — A killed process never bricks the store or loses acknowledged work.
  Byte-level model: ErgoModel/Storage.lean.  `classify`/`encode` are arbitrary subject to `Codec` (checked against
  the real encoding/json by the differential harness); kernel: a killed write(2) leaves a prefix of its buffer.
-/
import ErgoProofs.Lemmas.StorageThm
import ErgoProofs.Lemmas.CodecInst
import ErgoProofs.Lemmas.ProcBytesThm
import ErgoProofs.Lemmas.FilesThm
import ErgoProofs.Lemmas.FilesProc
namespace Ergo
open Storage

variable {W : Event → Prop} {classify : Bytes → LineClass} {encode : Event → Bytes} {limit : Nat}

/-- however many crashes (writes cut short at any byte offset), appends and rewrites alternate, starting from any
    readable file, every later read succeeds -/
theorem C03_always_readable (hc : CodecOn W classify encode) (f g : Bytes) (es : List Event)
    (hr : readEvents classify limit f = .ok es) (h : FileReach W classify encode limit f g) :
    ∃ es', readEvents classify limit g = .ok es' :=
  reach_readable hc f g es hr h

/-- everything visible before stays visible, in order: only the interrupted command's own events can be missing -/
theorem C03_acknowledged_kept (hc : CodecOn W classify encode) (f g : Bytes) (es : List Event)
    (hr : readEvents classify limit f = .ok es) (h : AppendReach W classify encode limit f g) :
    ∃ more, readEvents classify limit g = .ok (es ++ more) :=
  appendReach_prefix hc f g es hr h

/-- a later mutation on ANY readable (however torn) file takes effect completely and leaves the store readable and closed -/
theorem C03_later_mutation_takes_effect (hc : CodecOn W classify encode) (f : Bytes) (es evs : List Event)
    (hr : readEvents classify limit f = .ok es) (hs : Short W encode limit evs) :
    readEvents classify limit (appendFile classify encode f evs) = .ok (es ++ evs) ∧
    Closed (appendFile classify encode f evs) :=
  appendFile_reads hc f es evs hr hs

/-- a write cut short at byte k leaves everything from before plus a prefix of the interrupted batch -/
theorem C03_torn_write (hc : CodecOn W classify encode) (f : Bytes) (es evs : List Event) (k : Nat)
    (hr : readEvents classify limit f = .ok es) (hs : Short W encode limit evs) :
    ∃ n, n ≤ evs.length ∧ readEvents classify limit (appendTorn classify encode f evs k) = .ok (es ++ evs.take n) :=
  appendTorn_reads hc f es evs k hr hs

/-- the repair step itself loses nothing a reader could see -/
theorem C03_repair_invisible (f : Bytes) (es : List Event) (hr : readEvents classify limit f = .ok es) :
    readEvents classify limit (repairTail classify f) = .ok es ∧ Closed (repairTail classify f) :=
  readEvents_repairTail f es hr


/-! ### the same for ergo's actual line format
`Codec.classifyLine` / `Codec.encodeEvent` (ErgoModel/Codec.lean) are `bytes.TrimSpace` + `json.Unmarshal` + replay's payload decoding, and
`json.Marshal` of an event, byte for byte (tie: `fn-codec`); `Codec.jsonCodec` proves they form a codec, so nothing is assumed about the
line format any more. -/

/-- a line cut anywhere is never taken for an event: no proper non-empty prefix of a written line is valid JSON -/
theorem C03_cut_line_is_rejected (ets : Event → String) (e : Event) (p : Bytes)
    (hp : p <+: Codec.encodeEvent ets e) (hne : p ≠ Codec.encodeEvent ets e) (hnil : p ≠ []) : Codec.classifyLine p = .bad :=
  Codec.prefix_bad ets e p hp hne hnil

/-- however many kills (at any byte) and writes alternate, the JSONL store stays readable -/
theorem C03_always_readable_json (ets : Event → String) (f g : Bytes) (es : List Event)
    (hr : readEvents Codec.classifyLine limit f = .ok es) (h : FileReach Codec.Wf Codec.classifyLine (Codec.encodeEvent ets) limit f g) :
    ∃ es', readEvents Codec.classifyLine limit g = .ok es' :=
  C03_always_readable (Codec.jsonCodec ets) f g es hr h

/-- … and a write of well-formed events cut after `k` bytes leaves everything from before plus whole events of the batch -/
theorem C03_torn_write_json (ets : Event → String) (f : Bytes) (es evs : List Event) (k : Nat)
    (hr : readEvents Codec.classifyLine limit f = .ok es) (hs : Short Codec.Wf (Codec.encodeEvent ets) limit evs) :
    ∃ n, n ≤ evs.length ∧
      readEvents Codec.classifyLine limit (appendTorn Codec.classifyLine (Codec.encodeEvent ets) f evs k) = .ok (es ++ evs.take n) :=
  appendTorn_reads (Codec.jsonCodec ets) f es evs k hr hs

/-- the events any command sequence writes are exactly of the kind this covers: starting from a log of well-formed events, with clock
    readings before year 10000, the log after any command consists of well-formed events -/
theorem C03_commands_write_recoverable_events (log : List Event) (hl : Codec.AllWf log) (env : Env) (he : Codec.EnvT env) (req : Request) :
    Codec.AllWf (runCmd log env req).log :=
  Codec.runCmd_wf log hl env he req


/-- processes, schedules and kills together: whatever the interleaving of any number of writers and readers, whoever is killed wherever —
    between two system calls or inside its `write(2)` at any byte —, every file that ever had the log's name still loads -/
theorem C03_store_loads_under_every_schedule_and_kill {a b : ProcB.BSys} (h : ProcB.BReachable a b) (ha : ProcB.Inv a) : ProcB.Inv b :=
  ProcB.reach_inv h ha

/-- … and a death inside a write shows everything from before plus a whole number of the batch's events, touches no other file and leaves the
    log's name where it was; every other step is a step of the process model -/
theorem C03_death_inside_a_write_shows_a_prefix (s s' : ProcB.BSys) (hinv : ProcB.Inv s) (h : ProcB.BStep s s') :
    ProcB.Inv s' ∧ (Proc.Step (ProcB.abs s) (ProcB.abs s') ∨ (ProcB.Torn s s' ∧ ProcB.TornResult s s')) :=
  ProcB.step_sim s s' hinv h

/-! ### call by call on the two names of the store (ErgoModel.Files) -/

/-- a rewrite (compact, plan, the tail repair) killed after any number of its calls short of the rename leaves the log's name alone -/
theorem C03_rewrite_publishes_only_by_its_rename (s : Files.St) (trunc : Bool) (chunks : List Bytes) (k : Nat)
    (hk : k < (Files.rewrite trunc chunks).length) : (Files.run s ((Files.rewrite trunc chunks).take k)).dir.log = s.dir.log :=
  Files.rewrite_killed s trunc chunks k hk

/-- …and a completed one publishes exactly the new content, whatever an earlier killed rewrite left in the temporary file -/
theorem C03_stale_temporary_file_is_harmless (s : Files.St) (chunks : List Bytes) :
    (Files.run s (Files.rewrite true chunks)).dir = { log := some chunks.flatten, tmp := none } :=
  Files.rewrite_complete s chunks

/-- that rests on `O_TRUNC` (a T3 obligation on every traced open of the temporary file): without it stale bytes survive -/
theorem C03_without_truncation_stale_bytes_survive :
    (Files.run { dir := { log := some [1], tmp := some [7, 7, 7, 10] } } (Files.rewrite false [[9, 10]])).dir.log = some [9, 10, 7, 10] :=
  Files.rewrite_without_trunc_keeps_stale_bytes

/-- `appendEvents` killed between any two of its calls: under the log's name is the old file, the repaired file, or the final file — the three
    files the byte-level theorems above speak about -/
theorem C03_append_killed_between_calls (classify : Bytes → LineClass) (encode : Event → Bytes) (f : Bytes) (t : Option Bytes) (fds : Files.Fds)
    (evs : List Event) (k : Nat) :
    let g := (Files.run { dir := { log := some f, tmp := t }, fds } ((Files.appendProgram classify f (linesOf encode evs)).take k)).dir.log
    g = some f ∨ g = some (repairTail classify f) ∨ g = some (appendFile classify encode f evs) :=
  Files.appendProgram_killed classify encode f t fds evs k

/-- the two write steps of the byte-level process model are what ergo's system calls produce inside the lock section: the rewrite (temporary file,
    `O_TRUNC`, any chunking, rename) puts exactly the `replace` step's file under the log's name and nothing before its rename — whatever an earlier
    killed rewrite left behind; the append (`O_APPEND`, tail repair, one write) puts exactly the `append` step's file there.  So
    `C03_store_loads_under_every_schedule_and_kill` speaks about kills between *system calls*, not only between model steps -/
theorem C03_model_write_steps_are_the_system_calls (s : ProcB.BSys) (evs : List Event) (hc : s.cur < s.files.length)
    (chunks : List Bytes) (hch : chunks.flatten = replaceFile (Codec.encodeEvent s.ets) evs) (stale : Option Bytes) (fds : Files.Fds) :
    ((Files.run { dir := { log := some s.file, tmp := stale }, fds } (Files.rewrite true chunks)).dir.log = some (ProcB.writeBytes s (.replace evs)).file ∧
     ∀ k, k < (Files.rewrite true chunks).length →
       (Files.run { dir := { log := some s.file, tmp := stale }, fds } ((Files.rewrite true chunks).take k)).dir.log = some s.file) ∧
    (Files.run { dir := { log := some s.file, tmp := stale }, fds }
        (Files.appendProgram Codec.classifyLine s.file (linesOf (Codec.encodeEvent s.ets) evs))).dir.log = some (ProcB.writeBytes s (.append evs)).file :=
  ⟨ProcB.rewrite_is_the_replace_step s evs chunks hch stale fds, ProcB.append_is_the_append_step s evs hc stale fds⟩

end Ergo
