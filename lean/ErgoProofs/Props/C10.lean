/-
  C10 — A command that fails changes nothing.
-/
import ErgoProofs.Lemmas.ReachInv
import ErgoProofs.Lemmas.FileLog
namespace Ergo

/-- whenever a command exits non-zero — validation error, unknown or pruned id, illegal transition, missing claim,
    would-be cycle, bad result path, conflicting flags, lock busy — the log is exactly what it was: every command is
    validate-then-write inside one lock section, so a failed `new` creates nothing, a failed `set` applies none of its
    fields and a failed `sequence A B C` adds none of its edges -/
theorem C10_failure_changes_nothing (log : List Event) (env : Env) (req : Request) (e : CmdErr)
    (h : (runCmd log env req).err = some e) : (runCmd log env req).log = log ∧ (runCmd log env req).write = none :=
  runCmd_err_unchanged log env req e h

/-- a section that decides "error" issues no write at all (there is nothing to roll back) -/
theorem C10_section_error_no_write (log : List Event) (env : Env) (sec : Sec) (e : CmdErr)
    (h : runSec log env sec = .error e) : ∀ w o, runSec log env sec ≠ .ok (w, o) := by
  intro w o h'; rw [h] at h'; cases h'

/-- a `sequence` chain is all-or-nothing: if any edge is refused no event is produced for any of them -/
theorem C10_sequence_all_or_nothing (g : Graph) (unlink : Bool) (edges : List (Id × Id)) (e : CmdErr)
    (h : linkEvents g unlink edges = .error e) : secLinks g unlink edges = .error e := by
  simp [secLinks, h, Except.map]

/-- `new task` with state/claim/result: a refused follow-up update means the create event is not written either -/
theorem C10_create_all_or_nothing (g : Graph) (isEpic : Bool) (epicId title body : String) (follow : SetReq) (ids : List Id)
    (uuid agent : String) (po : PathOutcome) (now : Time) (id : Id) (e : CmdErr) (hf : follow.isEmpty = false)
    (hpick : pickId g.taken ids = some (id, []) ∨ ∃ rest, pickId g.taken ids = some (id, rest))
    (hepic : isEpic = true ∨ epicId = "")
    (hupd : updateEvents g (freshTask isEpic id uuid (if isEpic then "" else epicId) title body now) follow agent po now = .error e) :
    secCreate g isEpic epicId title body follow ids uuid agent po now = .error e := by
  have hp : ∃ rest, pickId g.taken ids = some (id, rest) := by
    rcases hpick with h | h; exact ⟨[], h⟩; exact h
  obtain ⟨rest, hp⟩ := hp
  unfold secCreate
  simp only [bind, Except.bind, pure, Except.pure]
  have hc : (!isEpic && epicId != "") = false := by
    rcases hepic with h | h <;> simp [h]
  simp [hc, hp, hf, hupd]

/-- non-vacuity: a failing command exists (an illegal transition) -/
example : (runCmd [] { agent := "a" } (.claim "ZZZZZZ")).err = some (.unknownTask "ZZZZZZ") := by decide

/-- the same about the **file**: a command refused before or inside its lock section (every `CmdErr` of the model; I/O faults during the write are the check's business) leaves every byte of `.ergo/plans.jsonl` as it was — not even the repair of a torn
    tail is made for it (the repair belongs to the append, and a failed command appends nothing) -/
theorem C10_failure_leaves_every_byte (log : List Event) (env : Env) (req : Request) (e : CmdErr) (ets : Event → String) (f : Storage.Bytes)
    (h : (runCmd log env req).err = some e) : Codec.fileAfter ets f (runCmd log env req).write = f := by
  rw [(runCmd_err_unchanged log env req e h).2]; rfl

end Ergo
