import ErgoModel.Exec
namespace Ergo
theorem C10_placeholder : True := trivial
end Ergo
