import ErgoModel.Exec
namespace Ergo
theorem C19_placeholder : True := trivial
end Ergo
