/-
  C19 — The human list is a complete, well-formed picture of the same state.
  Model: ErgoModel/Render.lean.  Display width is go-runewidth's per-character width (cells); text is assumed free of
  escape sequences and of multi-rune grapheme clusters for the width statements (the check measures real output too).
-/
import ErgoProofs.Lemmas.RenderLayout
import ErgoProofs.Lemmas.RenderRows
import ErgoProofs.Lemmas.ReachInv
import ErgoProofs.Lemmas.DiskInv
namespace Ergo
open Render

/-- every row fits the terminal and ends with its item's id in the same right-hand column: for a terminal wide enough to hold
    prefix+icon, the gaps, the id and the margin (W ≥ base + |id| + 6), whatever title, claimant and blocker text contain,
    the row is exactly W−2 columns wide and is a left part of width W−2−|id| followed by the id -/
theorem C19_row_width (ell : Cell) (hell : ell.w = 1) (r : RowIn) (hid : ∀ c ∈ r.id, c.w = 1)
    (hW : r.width ≥ visLen (singleLine r.base) + r.id.length + 6) (hbase : singleLine r.base = r.base) :
    ∃ left, formatTreeLine ell r = left ++ r.id ∧ visLen left = r.width - 2 - r.id.length ∧
      visLen (formatTreeLine ell r) = r.width - 2 :=
  row_width ell hell r hid hW hbase

/-- one item, one row: no newline, tab or other control character of a title / claimant / blocker text reaches the row -/
theorem C19_single_row (ell : Cell) (hell : isControl ell.ch = false) (r : RowIn)
    (hbase : ∀ c ∈ r.base, isControl c.ch = false) (hid : ∀ c ∈ r.id, isControl c.ch = false) :
    ∀ c ∈ formatTreeLine ell r, isControl c.ch = false :=
  row_no_control ell hell r hbase hid

/-- truncation cuts on character boundaries (the output is a prefix of the text plus at most the ellipsis), so it is valid
    UTF-8 whenever the input is; blocker names are abbreviated to whole characters as well -/
theorem C19_whole_characters (ell : Cell) (s : Str) (m : Int) (lens : List Nat) (maxLen : Nat) :
    (truncateToWidth ell s m = [] ∨ truncateToWidth ell s m = s ∨ ∃ p, p <+: s ∧ truncateToWidth ell s m = p ++ [ell]) ∧
    abbreviateKeep lens maxLen ≤ lens.length :=
  ⟨truncate_prefix ell s m, abbreviateKeep_le lens maxLen⟩

/-- sibling order (Kahn) loses nobody and puts dependencies first -/
theorem C19_sibling_order_complete (g : Graph) (tasks : List Task) (hnd : (tasks.map (·.id)).Nodup) (hac : Acyclic g.deps) :
    (topoSort g tasks).Perm tasks :=
  topoSort_perm g tasks hnd hac

/-- with the all view (`list --all`) every live item of every reachable store appears on exactly one row -/
theorem C19_all_complete (log : List Event) (h : ReachOK log) :
    ∃ g, replay log = .ok g ∧ ((rows g .all).map (·.id)).Perm (g.tasks.map (·.id)) := by
  obtain ⟨g, hr, hinv⟩ := reach_replay log h
  exact ⟨g, hr, rows_all g hinv.ok.wf hinv.i07 hinv.i14 hinv.ids⟩

/-- the default view shows every active task exactly once -/
theorem C19_default_shows_active_once (log : List Event) (h : ReachOK log) :
    ∃ g, replay log = .ok g ∧ ∀ t ∈ g.tasks, t.isEpic = false → t.st.closed = false → ((rows g .active).map (·.id)).count t.id = 1 := by
  obtain ⟨g, hr, hinv⟩ := reach_replay log h
  exact ⟨g, hr, fun t ht hne hst => rows_active g hinv.ok.wf hinv.i07 hinv.i14 hinv.ids t ht hne hst⟩

/-- the ready view (`list --ready`) shows exactly the ready tasks -/
theorem C19_ready_exact (log : List Event) (h : ReachOK log) :
    ∃ g, replay log = .ok g ∧ ∀ t ∈ g.tasks, t.isEpic = false → (t.id ∈ (rows g .ready).map (·.id) ↔ isReady g t = true) := by
  obtain ⟨g, hr, hinv⟩ := reach_replay log h
  exact ⟨g, hr, fun t ht hne => rows_ready g hinv.ok.wf hinv.i07 hinv.i14 hinv.ids t ht hne⟩

/-- children sit under their own epic with a tree glyph while root rows have none -/
theorem C19_glyphs (g : Graph) (v : View) (hwf : WF g) (h14 : Inv14 g) (hid : ∀ t ∈ g.tasks, t.id ≠ "") (r : Row) (hr : r ∈ rows g v) :
    ∃ t ∈ g.tasks, t.id = r.id ∧ (r.child = true ↔ (t.isEpic = false ∧ t.epicId ≠ "")) :=
  rows_child_iff g v hwf h14 hid r hr

/-- the picture is a picture of the **file**: after any command history the bytes of the store read back (real line format) to a log whose
    `list --all` shows every live item on exactly one row and whose `list --ready` shows exactly the ready tasks -/
theorem C19_list_of_the_bytes_on_disk_is_complete {limit : Nat} {log : List Event} {f : Storage.Bytes} (h : Codec.DiskReach limit log f) :
    ∃ g, Storage.readEvents Codec.classifyLine limit f = .ok log ∧ replay log = .ok g ∧
      ((rows g .all).map (·.id)).Perm (g.tasks.map (·.id)) ∧
      ∀ t ∈ g.tasks, t.isEpic = false → (t.id ∈ (rows g .ready).map (·.id) ↔ isReady g t = true) := by
  obtain ⟨g, hf, hr, hinv⟩ := Codec.disk_allInv h
  exact ⟨g, hf, hr, rows_all g hinv.ok.wf hinv.i07 hinv.i14 hinv.ids,
    fun t ht hne => rows_ready g hinv.ok.wf hinv.i07 hinv.i14 hinv.ids t ht hne⟩

end Ergo
