/-
  C17 — Titles and bodies come back exactly as they went in.
  Text = `List Char` (Unicode scalar values).  Assumed (trusted base): Go string ⇄ list of scalar values for valid UTF-8.
-/
import ErgoProofs.Lemmas.JsonThm
import ErgoProofs.Lemmas.ReachInv
import ErgoProofs.Lemmas.CodecInst
import ErgoProofs.Lemmas.InputThm
import ErgoProofs.Lemmas.StampFree
namespace Ergo

/-- the JSON string codec round-trips every valid Unicode text, with the log's HTML-escaping encoder and with the
    output's non-escaping one -/
theorem C17_codec_roundtrip (esc : Bool) (s : List Char) : Json.decodeString (Json.encodeString esc s) = some s :=
  Json.decode_encode esc s

/-- an encoded string contains no control character, so it can neither split a JSONL line nor be eaten by the scanner's
    CR/LF handling, whatever newlines the text contains -/
theorem C17_encoded_has_no_newline (esc : Bool) (s : List Char) : ∀ c ∈ Json.encodeString esc s, 32 ≤ c.toNat :=
  Json.encode_no_control esc s

/-- one trip through the log: encode with the log's HTML-escaping encoder, decode on replay -/
def throughLog (t : List Char) : Option (List Char) := Json.decodeString (Json.encodeString true t)

/-- `n` compactions re-encode and re-read the text `n` more times -/
def throughCompactions : Nat → List Char → Option (List Char)
  | 0, t => some t
  | n + 1, t => (throughLog t).bind (throughCompactions n)

/-- the whole pipeline for a stored text: encode (HTML-escaping) → one log line → decode → n × (compact: re-encode, decode)
    → encode for output (no escaping) → the consumer's decode: the text, character for character -/
theorem C17_pipeline (s : List Char) (n : Nat) :
    ((throughLog s).bind (throughCompactions n)).bind (fun t => Json.decodeString (Json.encodeString false t)) = some s := by
  have hstore : ∀ t, throughLog t = some t := fun t => Json.decode_encode true t
  have hn : ∀ n t, throughCompactions n t = some t := by
    intro n
    induction n with
    | zero => intro t; rfl
    | succ n ih => intro t; simp [throughCompactions, hstore, ih]
  simp [hstore, hn, Json.decode_encode]

/-- the only documented alteration — titles given by flag or by `set` lose surrounding white space and nothing else -/
theorem C17_trim_only_surrounding_space (s : List Char) :
    ∃ pre suf, s = pre ++ Text.trimSpaceL s ++ suf ∧ (∀ c ∈ pre, Text.isSpace c = true) ∧ (∀ c ∈ suf, Text.isSpace c = true) :=
  let ⟨pre, suf, h1, h2, h3, _, _⟩ := Text.trimSpaceL_spec s
  ⟨pre, suf, h1, h2, h3⟩

/-- bodies are never trimmed or otherwise rewritten by `set`: the event carries the text as given -/
theorem C17_set_body_verbatim (id : Id) (now : Time) (b : String) : evBody id now (some b) = [Event.body id b (some now)] := rfl

/-- JSON create stores title and body verbatim (no trimming) -/
theorem C17_json_create_verbatim (agent : String) (t : TaskInput) (hv : t.valid true false = true)
    (hplain : t.state = none ∧ t.claim = none ∧ t.resultPath = none) :
    sectionOf agent (.newTask { piped := true, json := some t }) =
      .ok (.create false (t.epic.getD "") (t.title.getD "") (t.body.getD "") {}) := by
  obtain ⟨h1, h2, h3⟩ := hplain
  simp [sectionOf, hv, h1, h2, h3, SetReq.paired]

/-- replay's legacy-title pass never touches an item whose title is not blank -/
theorem C17_no_migration (t : Task) (h : Text.isBlank t.title = false) : migrateTask t = t := by
  simp [migrateTask, h]

/-- compaction keeps title and body of every item of every reachable store (any number of times) -/
theorem C17_through_compact (log : List Event) (h : ReachOK log) :
    ∃ g g', replay log = .ok g ∧ replay (compactEvents g) = .ok g' ∧
      ∀ id, (g'.find? id).map (fun t => (t.title, t.body)) = (g.find? id).map (fun t => (t.title, t.body)) := by
  obtain ⟨g, hr, hinv⟩ := reach_replay log h
  obtain ⟨g', h1, hobs, _, _, _⟩ := compact_replay' g hinv.ok hinv.epic0
  refine ⟨g, g', hr, h1, fun id => ?_⟩
  have := hobs.1 id
  cases h1' : g'.find? id <;> cases h2' : g.find? id <;> simp [h1', h2'] at this ⊢
  simp [obsTask] at this
  exact ⟨this.2.2.2.2.2.1, this.2.2.2.2.2.2.1⟩


/-- byte level: the line written for an event (JSON escaping with HTML escapes, UTF-8) decodes — `bytes.TrimSpace`, `json.Unmarshal` of the
    envelope and of the payload — to that very event: every title and body, whatever characters it holds, comes back as it went in -/
theorem C17_line_roundtrip (ets : Event → String) (e : Event) (h : Codec.Wf e) :
    Codec.classifyLine (Codec.encodeEvent ets e) = .ev e :=
  Codec.classify_encode ets e h

/-- in particular for a creation and for title / body updates, with any text -/
theorem C17_text_events_roundtrip (ets : Event → String) (id : Id) (title body : String) (t : Time) (ht : t < Time.maxT) :
    Codec.classifyLine (Codec.encodeEvent ets (.newItem false id "" "" .todo title body (some t))) = .ev (.newItem false id "" "" .todo title body (some t)) ∧
    Codec.classifyLine (Codec.encodeEvent ets (.title id title (some t))) = .ev (.title id title (some t)) ∧
    Codec.classifyLine (Codec.encodeEvent ets (.body id body (some t))) = .ev (.body id body (some t)) :=
  ⟨Codec.classify_encode ets _ ⟨rfl, ht⟩, Codec.classify_encode ets _ ht, Codec.classify_encode ets _ ht⟩

/-- no byte below 0x20 in a written line: a newline or tab in a title cannot split or shift the line -/
theorem C17_line_has_no_control_bytes (ets : Event → String) (e : Event) : ∀ b ∈ Codec.encodeEvent ets e, (32 : UInt8) ≤ b :=
  Codec.clean_encodeEvent ets e

/-- UTF-8: text survives encoding and (lossy) decoding unchanged -/
theorem C17_utf8_roundtrip (cs : List Char) : Codec.utf8DecLossy (Codec.utf8Enc cs) = cs :=
  Codec.utf8DecLossy_encoded cs


/-- the way in: the JSON document an agent pipes to `new` / `set` for given fields is decoded (`ParseTaskInput`: strict decoder on the bytes of stdin)
    to exactly those fields, whatever characters title and body hold -/
theorem C17_stdin_document_roundtrip (t : TaskInput) (hne : Input.taskInputMembers t ≠ []) (tail : Storage.Bytes) (ht : Codec.skipWs tail = []) :
    Input.parseTaskInput (Input.encTaskInput t ++ tail) = some t :=
  Input.parseTaskInput_enc t hne tail ht

/-- which title and body an item has follows from the order of the lines, never from how their stamps compare: an edit recorded after an
    earlier edit wins, whatever the two stamps say -/
theorem C17_text_follows_line_order_not_stamps {l l' : List Event} (h : SameLines l l') {g g' : Graph}
    (hr : replay l = .ok g) (hr' : replay l' = .ok g') (id : Id) :
    (g.find? id).map (fun t => (t.title, t.body)) = (g'.find? id).map (fun t => (t.title, t.body)) := by
  have := congrArg (Option.map fun t : Task => (t.title, t.body)) ((stamp_free_items h hr hr').1 id)
  simpa [Option.map_map, Function.comp_def, Task.untimed] using this

end Ergo
