import ErgoModel.Exec
namespace Ergo
theorem C17_placeholder : True := trivial
end Ergo
