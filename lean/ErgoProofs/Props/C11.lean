/-
  C11 — plan creates the whole described graph or nothing.
-/
import ErgoProofs.Lemmas.ReachInv
import ErgoProofs.Lemmas.Prune
import ErgoProofs.Lemmas.PlanShape
import ErgoProofs.Lemmas.StorageThm
import ErgoProofs.Lemmas.InputThm
namespace Ergo

/-- a payload is accepted exactly when: non-blank epic title; body not blank if present; at least one task; every task has a
    non-blank title and a body that is not blank if present; titles pairwise distinct; every `after` entry is non-blank,
    is not the task's own title and names a task of the plan; the `after` relation is acyclic -/
theorem C11_valid_iff (p : PlanInput) :
    planValid p = true ↔
      optNonBlank p.title = true ∧ optBlank p.body = false ∧ p.tasks ≠ [] ∧
      (∀ t ∈ p.tasks, optNonBlank t.title = true ∧ optBlank t.body = false) ∧
      (planTitles p).Nodup ∧
      (∀ t ∈ p.tasks, ∀ a ∈ t.after, Text.isBlank a = false ∧ some a ≠ t.title ∧ a ∈ planTitles p) ∧
      Acyclic (planEdges p) :=
  planValid_iff p reachable_iff

/-- an invalid payload (or one that does not parse) is rejected before any lock is taken: nothing is written -/
theorem C11_invalid_nothing (log : List Event) (env : Env) (p : Option PlanInput)
    (h : p = none ∨ ∃ q, p = some q ∧ planValid q = false) :
    (runCmd log env (.plan p)).log = log ∧ (runCmd log env (.plan p)).write = none ∧ (runCmd log env (.plan p)).err ≠ none := by
  rcases h with rfl | ⟨q, rfl, hq⟩
  · simp [runCmd, sectionOf]
  · simp [runCmd, sectionOf, hq]

/-- a successful plan only extends the log (nothing that existed before is altered) and the result satisfies every invariant:
    one live epic, todo/unclaimed tasks inside it, edges between live tasks, acyclic -/
theorem C11_effect (log : List Event) (h : ReachOK log) (g : Graph) (hg : replayRaw log = .ok g) (env : Env) (henv : EnvOK g env)
    (p : PlanInput) (w : Write) (hw : (runCmd log env (.plan (some p))).write = some w) :
    (∃ new, w = .replace (log ++ new) ∧ (runCmd log env (.plan (some p))).log = log ++ new) ∧
    ∃ g', replay (runCmd log env (.plan (some p))).log = .ok g' ∧ AllInv g' := by
  refine ⟨?_, reach_replay _ (ReachOK.step env _ h hg henv)⟩
  unfold runCmd at hw ⊢
  cases hs : sectionOf env.agent (.plan (some p)) with
  | error e => simp [hs] at hw
  | ok sec =>
    have hsec : sec = .plan p := by
      simp only [sectionOf] at hs
      split at hs
      · injection hs with hs; exact hs.symm
      · cases hs
    subst hsec
    cases hr : runSec log env (.plan p) with
    | error e => simp [hs, hr] at hw
    | ok wo =>
      obtain ⟨w', out⟩ := wo
      simp only [hs, hr] at hw ⊢
      injection hw with hw
      subst hw
      -- the plan section's write is `.replace (log ++ new)`
      unfold runSec at hr
      cases hrep : replay log with
      | error e => simp [hrep] at hr
      | ok g0 =>
        simp only [hrep] at hr
        cases hp : secPlan log g0 p env with
        | error e => simp [hp, Except.map] at hr
        | ok wo2 =>
          obtain ⟨w2, o2⟩ := wo2
          simp only [hp, Except.map] at hr
          injection hr with hr
          injection hr with hr1 _
          subst hr1
          obtain ⟨new, hnew⟩ := secPlan_shape log g0 p env w2 o2 hp
          subst hnew
          exact ⟨new, rfl, rfl⟩

/-- the torn tail of a crashed writer is dropped by plan's rewrite and nothing else is lost (the rewrite re-encodes
    exactly what `readEvents` returns) -/
theorem C11_torn_tail_dropped {classify : Storage.Bytes → Storage.LineClass} {limit : Nat} (f frag : Storage.Bytes)
    (hcl : Storage.Closed f) (hnl : Storage.NL ∉ frag) (hne : frag ≠ []) (hbad : classify (Storage.dropCR frag) = .bad)
    (hlen : frag.length < limit) :
    Storage.readEvents classify limit (f ++ frag) = Storage.readEvents classify limit f :=
  Storage.readEvents_fragment f frag hcl hnl hne hbad hlen


/-- byte level, for the documents of `new` / `set` (the same reader serves `plan`): a complete document followed by anything but white space —
    a second JSON value, stray text — is a parse error: nothing of it is applied -/
theorem C11_second_value_rejected (t : TaskInput) (hne : Input.taskInputMembers t ≠ []) (tail : Storage.Bytes) (ht : Codec.skipWs tail ≠ []) :
    Input.parseTaskInput (Input.encTaskInput t ++ tail) = none :=
  Input.parseTaskInput_trailing t hne tail ht

end Ergo
