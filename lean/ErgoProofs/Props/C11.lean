import ErgoModel.Exec
namespace Ergo
theorem C11_placeholder : True := trivial
end Ergo
