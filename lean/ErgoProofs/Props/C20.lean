/-
  C20 — Result attachments are confined, faithful and never lost.
-/
import ErgoProofs.Lemmas.PathThm
import ErgoProofs.Lemmas.ReachInv
import ErgoProofs.Lemmas.PropsAux
import ErgoProofs.Lemmas.UrlThm
import ErgoProofs.Lemmas.StampFree
namespace Ergo

/-- Go's Clean puts every surviving ".." in front: a cleaned relative path is k × ".." followed by plain names -/
theorem C20_clean_shape (p : Path.P) (hrel : Path.isAbs p = false) (hne : p ≠ []) :
    ∃ (k : Nat) (names : List Path.P), (∀ c ∈ names, Path.IsName c) ∧
      ((k = 0 ∧ names = [] ∧ Path.clean p = ['.']) ∨ ((k ≠ 0 ∨ names ≠ []) ∧ Path.clean p = Path.joinSlash (List.replicate k Path.dotdot ++ names))) :=
  Path.clean_shape p hrel hne

/-- an accepted result path is the cleaned input, relative, without any ".." component, not under `.ergo`, and names an
    existing regular file under the project root (directories, FIFOs, devices and missing files are refused) -/
theorem C20_confined (fs : Path.P → Path.Kind) (repo rel c : Path.P) (h : Path.validateResultPath fs repo rel = .ok c) :
    c = Path.clean rel ∧ Path.isAbs c = false ∧ (∀ comp ∈ Path.splitSlash c, comp ≠ Path.dotdot) ∧
    (Path.splitSlash c).head? ≠ some Path.ergoName ∧ fs (Path.join [repo, c]) = .file :=
  Path.validate_confined fs repo rel c h

/-- whatever its spelling, a path that leaves the project, is absolute, or enters `.ergo` after cleaning is refused -/
theorem C20_escape_refused (fs : Path.P → Path.Kind) (repo rel : Path.P)
    (h : Path.isAbs (Path.clean rel) = true ∨ (Path.splitSlash (Path.clean rel)).head? = some Path.dotdot ∨
         (Path.splitSlash (Path.clean rel)).head? = some Path.ergoName) :
    ∃ e, Path.validateResultPath fs repo rel = .error e :=
  Path.validate_rejects_escape fs repo rel h

/-- a result can be attached only to a live task (not an epic, not a pruned or unknown id), with a one-line summary of at
    most 120 bytes -/
theorem C20_live_task_only (g : Graph) (id : Id) (r : SetReq) (agent : String) (po : PathOutcome) (now : Time) (w : Write)
    (s p : String) (hr : r.resultPath = some p ∧ r.resultSummary = some s)
    (h : secUpdate g id r agent po now = .ok w) :
    g.tombed id = false ∧ ∃ t, g.find? id = some t ∧ t.isEpic = false ∧ resultSummaryOk s = true ∧ ∃ c sha m gi, po = .ok c sha m gi :=
  live_task_only g id r agent po now w s p hr h

/-- results accumulate newest first and later events never drop, duplicate, reorder or alter them: replaying more events
    only prepends new results of that task (as long as it is not pruned) -/
theorem C20_accumulate (g : Graph) (e : Event) (g' : Graph) (h : applyEvent g e = .ok g') (t : Task) (ht : g.find? t.id = some t)
    (hwf : WF g) :
    g'.find? t.id = none ∨ ∃ t', g'.find? t.id = some t' ∧ ∃ new, t'.results = new ++ t.results ∧ new.length ≤ 1 :=
  applyEvent_resultsKept g e g' h t ht hwf

/-- compaction keeps every result, in order, with its evidence fields -/
theorem C20_compact_keeps_results (log : List Event) (h : ReachOK log) :
    ∃ g g', replay log = .ok g ∧ replay (compactEvents g) = .ok g' ∧
      ∀ id, (g'.find? id).map (·.results) = (g.find? id).map (·.results) := by
  obtain ⟨g, hr, hinv⟩ := reach_replay log h
  obtain ⟨g', h1, hobs, _, _, _⟩ := compact_replay' g hinv.ok hinv.epic0
  refine ⟨g, g', hr, h1, fun id => ?_⟩
  have := hobs.1 id
  cases h1' : g'.find? id <;> cases h2' : g.find? id <;> simp [h1', h2'] at this ⊢
  simp [obsTask] at this
  exact this.2.2.2.2.2.2.2.2.2.2.2


/-! ### the derived `file://` URL (ErgoModel.Url, tied to `deriveFileURL` by fn-path) -/

/-- with an absolute project directory — which `resolveErgoDir` always returns (C18) — the URL is `file:///…`, from any working directory
    and for any spelling of the relative path -/
theorem C20_file_url_absolute (repo rel : Path.P) (habs : Path.isAbs repo = true) :
    ∃ rest, Url.fileURL repo rel = Url.scheme ++ 47 :: rest :=
  Url.fileURL_absolute repo rel habs

/-- it is the escaped UTF-8 of the *cleaned* join (no `.`, `..` or empty component survives) … -/
theorem C20_file_url_of_clean (repo rel : Path.P) (habs : Path.isAbs repo = true) (hb : ∀ c ∈ Path.join [repo, rel], c ≠ '\\') :
    Url.fileURL repo rel = Url.scheme ++ Url.escapePath (Url.utf8 (Path.join [repo, rel])) :=
  Url.fileURL_of_clean repo rel habs hb

/-- … a single printable ASCII token (no space, control character, quote, angle bracket, backslash or byte ≥ 128) … -/
theorem C20_file_url_is_one_token (bs : Url.Bytes) :
    ∀ b ∈ Url.escapePath bs, 33 ≤ b ∧ b ≤ 126 ∧ b ≠ 34 ∧ b ≠ 60 ∧ b ≠ 62 ∧ b ≠ 92 :=
  fun b hb => Url.urlByte_printable b (Url.escapePath_bytes bs b hb)

/-- … from which the path is recovered exactly: different paths have different URLs -/
theorem C20_file_url_roundtrip (bs : Url.Bytes) : Url.unescape (Url.escapePath bs) = some bs :=
  Url.unescape_escapePath bs

/-- the results attached to a task, their evidence and their order follow from the order of the lines, not from their stamps: none is dropped
    because its stamp is not later than another one -/
theorem C20_results_follow_line_order_not_stamps {l l' : List Event} (h : SameLines l l') {g g' : Graph}
    (hr : replay l = .ok g) (hr' : replay l' = .ok g') (id : Id) :
    (g.find? id).map (fun t => t.results.map fun r => (r.summary, r.path, r.sha, r.mtime, r.git)) =
    (g'.find? id).map (fun t => t.results.map fun r => (r.summary, r.path, r.sha, r.mtime, r.git)) := by
  have := congrArg (Option.map fun t : Task => t.results.map fun r => (r.summary, r.path, r.sha, r.mtime, r.git)) ((stamp_free_items h hr hr').1 id)
  simpa [Option.map_map, Function.comp_def, Task.untimed, List.map_map] using this

end Ergo
