import ErgoModel.Exec
namespace Ergo
theorem C20_placeholder : True := trivial
end Ergo
