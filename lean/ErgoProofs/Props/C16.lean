/-
  C16 — --json output is a single value and tells the truth.
  The "exactly one JSON value" half is about print sites and is decided by T1 (stdout_sites) and the strict-parse oracle
  on every command; what is proved here is the truth of what success values report.
-/
import ErgoProofs.Lemmas.ReachInv
import ErgoProofs.Lemmas.PropsAux
namespace Ergo

/-- a command that exits non-zero wrote nothing: there is no state for a success value to misreport -/
theorem C16_error_means_no_write (log : List Event) (env : Env) (req : Request) (e : CmdErr)
    (h : (runCmd log env req).err = some e) : (runCmd log env req).write = none :=
  (runCmd_err_unchanged log env req e h).2


/-- a created id is fresh: not live, not pruned, one of the RNG's draws; and a following read shows the item -/
theorem C16_created_id_fresh_and_visible (log : List Event) (g : Graph) (hg : replayRaw log = .ok g) (hinv : AllInv g)
    (env : Env) (henv : EnvOK g env) (isEpic : Bool) (epicId title body : String) (follow : SetReq) (w : Write) (out : SecOut)
    (ht : Text.isBlank title = false)
    (h : runSec log env (.create isEpic epicId title body follow) = .ok (w, out)) :
    ∃ id, out.created = some id ∧ g.has id = false ∧ g.tombed id = false ∧ id ∈ env.ids ∧
      ∃ g', replayRaw (applyWrite log w) = .ok g' ∧ g'.has id = true :=
  created_id_fresh_and_visible log g hg hinv env isEpic epicId title body follow w out h

/-- `claim` reports the task it claimed: after the write that task is doing and claimed by exactly the reported agent -/
theorem C16_claim_reply_true (log : List Event) (g : Graph) (hg : replayRaw log = .ok g) (hinv : AllInv g)
    (env : Env) (henv : EnvOK g env) (hag : env.agent ≠ "") (epic : Id) (w : Write) (out : SecOut)
    (h : runSec log env (.claimOldest epic) = .ok (w, out)) :
    ∃ t, out.claimed = some t ∧ ∃ g' t', replayRaw (applyWrite log w) = .ok g' ∧ g'.find? t.id = some t' ∧
      t'.st = .doing ∧ t'.claimedBy = env.agent :=
  claim_reply_true log g hg hinv env epic w out h

/-- `prune --yes` reports exactly the ids that are gone afterwards -/
theorem C16_prune_reply_true (log : List Event) (g : Graph) (hg : replayRaw log = .ok g) (hinv : AllInv g)
    (env : Env) (henv : EnvOK g env) (w : Write) (out : SecOut)
    (h : runSec log env (.prune true) = .ok (w, out)) :
    out.pruned = pruneTargets g ∧ ∃ g', replayRaw (applyWrite log w) = .ok g' ∧
      (∀ i ∈ out.pruned, g'.has i = false) ∧ (∀ t ∈ g.tasks, t.id ∉ out.pruned → g'.has t.id = true) :=
  prune_reply_true log g hg hinv env w out h

/-- a command that writes nothing either reports an error or is the documented "no ready tasks" answer of `claim` -/
theorem C16_no_write_means_error (log : List Event) (env : Env) (req : Request) (h : (runCmd log env req).write = none)
    (hne : ∀ e, req ≠ .claimOldest e) : (runCmd log env req).err ≠ none :=
  no_write_means_error log env req h hne

end Ergo
