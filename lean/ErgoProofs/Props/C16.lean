/-
  C16 — --json output is a single value and tells the truth.
  The "exactly one JSON value" half is about print sites and is decided by T1 (stdout_sites) and the strict-parse oracle
  on every command; what is proved here is the truth of what success values report.
-/
import ErgoProofs.Lemmas.ReachInv
import ErgoProofs.Lemmas.PropsAux
import ErgoProofs.Lemmas.ViewThm
namespace Ergo

/-- a command that exits non-zero wrote nothing: there is no state for a success value to misreport -/
theorem C16_error_means_no_write (log : List Event) (env : Env) (req : Request) (e : CmdErr)
    (h : (runCmd log env req).err = some e) : (runCmd log env req).write = none :=
  (runCmd_err_unchanged log env req e h).2


/-- a created id is fresh: not live, not pruned, one of the RNG's draws; and a following read shows the item -/
theorem C16_created_id_fresh_and_visible (log : List Event) (g : Graph) (hg : replayRaw log = .ok g) (hinv : AllInv g)
    (env : Env) (henv : EnvOK g env) (isEpic : Bool) (epicId title body : String) (follow : SetReq) (w : Write) (out : SecOut)
    (ht : Text.isBlank title = false)
    (h : runSec log env (.create isEpic epicId title body follow) = .ok (w, out)) :
    ∃ id, out.created = some id ∧ g.has id = false ∧ g.tombed id = false ∧ id ∈ env.ids ∧
      ∃ g', replayRaw (applyWrite log w) = .ok g' ∧ g'.has id = true :=
  created_id_fresh_and_visible log g hg hinv env isEpic epicId title body follow w out h

/-- `claim` reports the task it claimed: after the write that task is doing and claimed by exactly the reported agent -/
theorem C16_claim_reply_true (log : List Event) (g : Graph) (hg : replayRaw log = .ok g) (hinv : AllInv g)
    (env : Env) (henv : EnvOK g env) (hag : env.agent ≠ "") (epic : Id) (w : Write) (out : SecOut)
    (h : runSec log env (.claimOldest epic) = .ok (w, out)) :
    ∃ t, out.claimed = some t ∧ ∃ g' t', replayRaw (applyWrite log w) = .ok g' ∧ g'.find? t.id = some t' ∧
      t'.st = .doing ∧ t'.claimedBy = env.agent :=
  claim_reply_true log g hg hinv env epic w out h

/-- `prune --yes` reports exactly the ids that are gone afterwards -/
theorem C16_prune_reply_true (log : List Event) (g : Graph) (hg : replayRaw log = .ok g) (hinv : AllInv g)
    (env : Env) (henv : EnvOK g env) (w : Write) (out : SecOut)
    (h : runSec log env (.prune true) = .ok (w, out)) :
    out.pruned = pruneTargets g ∧ ∃ g', replayRaw (applyWrite log w) = .ok g' ∧
      (∀ i ∈ out.pruned, g'.has i = false) ∧ (∀ t ∈ g.tasks, t.id ∉ out.pruned → g'.has t.id = true) :=
  prune_reply_true log g hg hinv env w out h

/-- a command that writes nothing either reports an error or is the documented "no ready tasks" answer of `claim` -/
theorem C16_no_write_means_error (log : List Event) (env : Env) (req : Request) (h : (runCmd log env req).write = none)
    (hne : ∀ e, req ≠ .claimOldest e) : (runCmd log env req).err ≠ none :=
  no_write_means_error log env req h hne


/-! ### the printed values (ErgoModel.View: `replyOf`, `listJson`, `showJson`), tied to the real stdout by T2-cmd / T2-view -/

/-- `set --json` that succeeded prints the state and claimant the task has after the command -/
theorem C16_set_reply_is_next_read (log : List Event) (g : Graph) (hg : replayRaw log = .ok g) (hinv : AllInv g)
    (env : Env) (henv : EnvOK g env) (id : Id) (i : RawInput)
    (h : (runCmd log env (.set id i)).err = none) :
    ∃ g' t', replay (runCmd log env (.set id i)).log = .ok g' ∧ g'.find? id = some t' ∧
      replyOf env (.set id i) (runCmd log env (.set id i)) = some (.set id (updatedFields i) t'.st t'.claimedBy) :=
  set_reply log g hg hinv env henv id i h

/-- `claim <id> --json` that succeeded: the task is `doing`, claimed by the caller, and the reply says so -/
theorem C16_claim_id_reply_is_next_read (log : List Event) (g : Graph) (hg : replayRaw log = .ok g) (hinv : AllInv g)
    (env : Env) (henv : EnvOK g env) (id : Id)
    (h : (runCmd log env (.claim id)).err = none) :
    ∃ g' t', replay (runCmd log env (.claim id)).log = .ok g' ∧ g'.find? id = some t' ∧
      t'.st = .doing ∧ t'.claimedBy = env.agent ∧
      replyOf env (.claim id) (runCmd log env (.claim id)) =
        some (.claimed id t'.epicId .doing t'.title t'.body env.agent (claimedAt t')) :=
  claim_id_reply log g hg hinv env henv id h

/-- `new task|epic --json`: every field of the reply is the stored item's field (in particular `state` after `new … state=/claim=`) -/
theorem C16_created_reply_is_next_read (log : List Event) (g : Graph) (hg : replayRaw log = .ok g) (hinv : AllInv g)
    (env : Env) (henv : EnvOK g env) (i : RawInput) (isTask : Bool)
    (h : (runCmd log env (if isTask then .newTask i else .newEpic i)).err = none) :
    let res := runCmd log env (if isTask then .newTask i else .newEpic i)
    ∃ g' t', replay res.log = .ok g' ∧ res.out.created = some t'.id ∧ g'.find? t'.id = some t' ∧
      replyOf env (if isTask then .newTask i else .newEpic i) res =
        some (.created t'.isEpic t'.id t'.uuid t'.epicId t'.st t'.title t'.body t'.createdAt) :=
  created_reply log g hg hinv env henv i isTask h

/-- `claim --json` (oldest ready): the reply is the head of the ready list as stored afterwards; nothing written ⇔ `no_ready` ⇔ empty list -/
theorem C16_claim_oldest_reply_is_next_read (log : List Event) (g : Graph) (hg : replayRaw log = .ok g) (hinv : AllInv g)
    (env : Env) (henv : EnvOK g env) (hag : env.agent ≠ "") (epic : Id)
    (hw : (runCmd log env (.claimOldest epic)).write ≠ none) :
    let res := runCmd log env (.claimOldest epic)
    ∃ t g' t', (readyTasks g epic).head? = some t ∧ replay res.log = .ok g' ∧ g'.find? t.id = some t' ∧
      t'.st = .doing ∧ t'.claimedBy = env.agent ∧ t'.title = t.title ∧ t'.body = t.body ∧ t'.epicId = t.epicId ∧
      replyOf env (.claimOldest epic) res = some (.claimed t.id t.epicId .doing t.title t.body env.agent env.now) :=
  claim_oldest_reply log g hg hinv env henv hag epic hw

theorem C16_no_ready_reply (log : List Event) (g : Graph) (hg : replayRaw log = .ok g) (hinv : AllInv g)
    (env : Env) (hag : env.agent ≠ "") (epic : Id)
    (herr : (runCmd log env (.claimOldest epic)).err = none) (hw : (runCmd log env (.claimOldest epic)).write = none) :
    replyOf env (.claimOldest epic) (runCmd log env (.claimOldest epic)) = some .noReady ∧ readyTasks g epic = [] :=
  claim_oldest_no_ready log g hg hinv env hag epic herr hw

/-- `prune --json`: `pruned_ids` is the policy's set, dry run or not -/
theorem C16_prune_reply_is_policy (log : List Event) (g : Graph) (hg : replayRaw log = .ok g) (hinv : AllInv g)
    (env : Env) (yes : Bool) :
    replyOf env (.prune yes) (runCmd log env (.prune yes)) = some (.pruned (!yes) (pruneTargets g)) :=
  prune_reply log g hg hinv env yes

/-- `sequence --json`: every edge the reply lists is in the graph afterwards (link) / absent afterwards (rm) -/
theorem C16_sequence_reply_is_next_read (log : List Event) (g : Graph) (hg : replayRaw log = .ok g) (hinv : AllInv g)
    (env : Env) (henv : EnvOK g env) (args : List String)
    (h : (runCmd log env (.sequence args)).err = none) :
    ∃ un es g', replyOf env (.sequence args) (runCmd log env (.sequence args)) = some (.sequence un es) ∧
      replay (runCmd log env (.sequence args)).log = .ok g' ∧
      ∀ e ∈ es, (e ∈ g'.deps) = !un :=
  sequence_reply log g hg hinv env henv args h

/-- `list --json --all` shows every live task exactly once, described by its own record and the graph's flags; default = unfinished; `--ready` = ready list -/
theorem C16_list_json_faithful (g : Graph) (hwf : GraphOK g) :
    (((listJson g { showAll := true }).map (·.id)).Perm ((g.tasks.filter fun t => !t.isEpic).map (·.id)) ∧
      ∀ i ∈ listJson g { showAll := true }, ∃ t ∈ g.tasks, t.isEpic = false ∧ i = listItem g t) ∧
    (∀ i, i ∈ listJson g {} ↔ ∃ t ∈ g.tasks, t.isEpic = false ∧ t.st.closed = false ∧ i = listItem g t) ∧
    (∀ i, i ∈ listJson g { readyOnly := true } ↔ ∃ t ∈ readyTasks g "", i = listItem g t) ∧
    (∀ t, (listItem g t).ready = isReady g t ∧ (listItem g t).blocked = isBlocked g t ∧ (listItem g t).st = t.st ∧
      (listItem g t).claimedBy = t.claimedBy) :=
  ⟨listJson_all g hwf, listJson_default g, listJson_ready g, fun t => listItem_flags g t⟩

/-- `show --json`: a pruned id is refused as pruned, a live one is shown as itself; dependencies are shown from both ends -/
theorem C16_show_json_faithful (g : Graph) (hwf : GraphOK g) :
    (∀ id, g.tombed id = true → showJson g id = .error (.pruned id)) ∧
    (∀ t ∈ g.tasks, g.tombed t.id = false → ∃ o, showJson g t.id = .ok o ∧ (o = .item (showItem g t) ∨ ∃ kids, o = .epic (showItem g t) kids)) ∧
    (∀ a b : Task, b.id ∈ (showItem g a).deps ↔ a.id ∈ (showItem g b).rdeps) ∧
    (∀ (a : Task) d, d ∈ (showItem g a).deps ↔ (a.id, d) ∈ g.deps) :=
  ⟨fun id h => showJson_pruned g id h, fun t ht hnt => showJson_live g hwf t ht hnt, fun a b => show_mirror g a b, fun a d => show_deps_iff g a d⟩

end Ergo
