import ErgoModel.Exec
namespace Ergo
theorem C16_placeholder : True := trivial
end Ergo
