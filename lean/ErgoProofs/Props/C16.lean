/-
  C16 — --json output is a single value and tells the truth.
  The "exactly one JSON value" half is about print sites and is decided by T1 (stdout_sites) and the strict-parse oracle
  on every command; what is proved here is the truth of what success values report.
-/
import ErgoProofs.Lemmas.ReachInv
namespace Ergo

/-- a command that exits non-zero wrote nothing: there is no state for a success value to misreport -/
theorem C16_error_means_no_write (log : List Event) (env : Env) (req : Request) (e : CmdErr)
    (h : (runCmd log env req).err = some e) : (runCmd log env req).write = none :=
  (runCmd_err_unchanged log env req e h).2


end Ergo
