import ErgoModel.Exec
namespace Ergo
theorem C01_placeholder : True := trivial
end Ergo
