/-
  C01 — A ready task is handed to at most one claimant.
  Model: ErgoModel/Proc.lean (any number of processes, every interleaving of lock attempts, reads, writes, crashes).
-/
import ErgoProofs.Lemmas.ProcThm
import ErgoProofs.Lemmas.Ready
import ErgoProofs.Lemmas.ProcBytesThm
namespace Ergo
open Proc

/-- a claimer that won was handed the head — i.e. the (created_at, id)-least element — of the ready list of the log *as it
    was when its claim took effect*, and recorded exactly claim + state=doing for it -/
theorem C01_claim_outcome {log0 : List Event} {ws : List (List Event → Except CmdErr Write)} {nr : Nat} {s : Sys}
    (h : Reachable (Sys.init log0 ws nr) s) (i p : Nat) (snap : List Event) (w : Write)
    (agent epic : String) (now : Time) (hd : ws[p]? = some (claimDecide agent epic now))
    (hc : s.commits[i]? = some (p, snap, w)) :
    snap = logAfter log0 s.commits i ∧
    ∃ g t rest, replay snap = .ok g ∧ readyTasks g epic = t :: rest ∧
      (∀ u ∈ readyTasks g epic, claimLe t u = true) ∧ t.isEpic = false ∧ isReady g t = true ∧
      w = .append [Event.claim t.id agent (some now), Event.state t.id .doing (some now)] := by
  obtain ⟨h1, g, t, rest, hg, hr, hw⟩ := claim_outcome h i p snap w agent epic now hd hc
  refine ⟨h1, g, t, rest, hg, hr, readyTasks_head_min g epic t rest hr, ?_, ?_, hw⟩
  · have := (mem_readyTasks g epic t).1 (by rw [hr]; simp); exact this.2.1
  · have := (mem_readyTasks g epic t).1 (by rw [hr]; simp); exact this.2.2.1

/-- "nothing is ready" is answered only when the ready set of the log at lock time is empty -/
theorem C01_no_ready_means_empty {log0 : List Event} {ws : List (List Event → Except CmdErr Write)} {nr : Nat} {s : Sys}
    (h : Reachable (Sys.init log0 ws nr) s) (p : Nat) (wtr : Writer) (snap : List Event)
    (agent epic : String) (now : Time) (hd : ws[p]? = some (claimDecide agent epic now))
    (hw : s.writers[p]? = some wtr) (hp : wtr.phase = .finished (.failed snap .noReady)) :
    ∃ g, replay snap = .ok g ∧ ∀ t ∈ g.tasks, ¬ (t.isEpic = false ∧ isReady g t = true ∧ (epic = "" ∨ t.epicId = epic)) := by
  obtain ⟨g, hg, hr⟩ := claim_noReady h p wtr snap agent epic now hd hw hp
  exact ⟨g, hg, (readyTasks_nil_iff g epic).1 hr⟩

/-- lock busy means no effect -/
theorem C01_busy_no_effect {log0 : List Event} {ws : List (List Event → Except CmdErr Write)} {nr : Nat} {s : Sys}
    (h : Reachable (Sys.init log0 ws nr) s) (p : Nat) (w : Writer) (hw : s.writers[p]? = some w)
    (hp : w.phase = .finished .busy) : ∀ c ∈ s.commits, c.1 ≠ p :=
  not_ok_not_committed h p w hw (Or.inl hp)

/-- two winners never decide on the same log: the later one's snapshot already contains the earlier one's claim and
    state=doing lines (so the same task can be handed out again only if somebody moved it back to todo in between) -/
theorem C01_no_double {log0 : List Event} {ws : List (List Event → Except CmdErr Write)} {nr : Nat} {s : Sys}
    (h : Reachable (Sys.init log0 ws nr) s) (i j p q : Nat) (snapP snapQ : List Event) (wP wQ : Write)
    (hij : i < j) (hP : s.commits[i]? = some (p, snapP, wP)) (hQ : s.commits[j]? = some (q, snapQ, wQ)) :
    snapQ = (s.commits.take j |>.drop (i + 1)).foldl (fun l c => applyWrite l c.2.2) (applyWrite snapP wP) :=
  claim_no_double h i j p q snapP snapQ wP wQ hij hP hQ

/-- mutual exclusion: at any moment the lock holder is exactly the one process between lock and unlock -/
theorem C01_mutual_exclusion {log0 : List Event} {ws : List (List Event → Except CmdErr Write)} {nr : Nat} {s : Sys}
    (h : Reachable (Sys.init log0 ws nr) s) (p : Nat) (w : Writer) (hw : s.writers[p]? = some w) :
    (s.holder = some p ↔ (w.phase = .locked ∨ (∃ snap, w.phase = .read snap) ∨ (∃ snap wr, w.phase = .wrote snap wr) ∨
                          (∃ snap e, w.phase = .erred snap e))) :=
  holder_unique h p w hw

/-- the same on the **bytes**: in every run of the byte-level system (the log in ergo's real line format, any number of writers and lock-free
    readers, any schedule, deaths between system calls) a claimer that won decided on the file as its predecessors left it and was handed the
    (created_at, id)-least ready task of that file -/
theorem C01_claim_outcome_on_the_bytes (f : Storage.Bytes) (ws : List (List Event → Except CmdErr Write)) (nr limit : Nat) (ets : Event → String)
    (es : List Event) (hf : Storage.readEvents Codec.classifyLine limit f = .ok es) (hfw : Codec.AllWf es)
    (hw : ∀ d ∈ ws, ∀ snap wr, Codec.AllWf snap → d snap = .ok wr → Codec.AllWf wr.events)
    (s : ProcB.BSys) (h : ProcB.BReachableNT (ProcB.BSys.init f ws nr limit ets) s) (i p : Nat) (snap : List Event) (w : Write)
    (agent epic : String) (now : Time) (hd : ws[p]? = some (claimDecide agent epic now))
    (hc : s.commits[i]? = some (p, snap, w)) :
    snap = Proc.logAfter es s.commits i ∧
    ∃ g t rest, replay snap = .ok g ∧ readyTasks g epic = t :: rest ∧
      (∀ u ∈ readyTasks g epic, claimLe t u = true) ∧ t.isEpic = false ∧ isReady g t = true ∧
      w = .append [Event.claim t.id agent (some now), Event.state t.id .doing (some now)] := by
  obtain ⟨hreach, _⟩ := ProcB.reach_sim h (ProcB.inv_init f ws nr limit ets es hf hfw hw)
  rw [ProcB.abs_init, ProcB.decode_of_ok hf] at hreach
  exact C01_claim_outcome hreach i p snap w agent epic now hd hc

end Ergo
