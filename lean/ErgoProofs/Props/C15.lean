import ErgoModel.Exec
namespace Ergo
theorem C15_placeholder : True := trivial
end Ergo
