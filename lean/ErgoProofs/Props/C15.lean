/-
  C15 — Accepted plans can always make progress.
  On the current tree the full property is FALSE (known finding, see known_findings.jsonl): the per-level cycle tests let a
  cross-level wait cycle through.  This file proves (a) the progress theorem under acyclicity of the effective waits-for
  relation, (b) the converse, (c) the refutation with a concrete reachable witness, (d) the partial result that holds today.
-/
import ErgoProofs.Lemmas.ReachInv
import ErgoProofs.Lemmas.Progress
import ErgoProofs.Lemmas.PropsAux
import ErgoProofs.Lemmas.StampFree
namespace Ergo

/-- if the effective waits-for relation (own dependencies + those inherited from the epic's dependencies) has no cycle, then
    whenever at least one task is todo and none is doing/blocked/error, some task is ready -/
theorem C15_progress_if_acyclic (g : Graph) (hinv : AllInv g) (hac : WaitsAcyclic g)
    (hstates : ∀ t ∈ g.tasks, t.isEpic = false → t.st = .todo ∨ closedSt t.st)
    (htodo : ∃ t ∈ g.tasks, t.isEpic = false ∧ t.st = .todo) :
    ∃ t ∈ g.tasks, t.isEpic = false ∧ isReady g t = true :=
  progress g hinv.ok.wf hinv.i06 hinv.i07 hinv.i14 hinv.ids hac hstates htodo

/-- the "equivalently": on a wait cycle nothing on the cycle can ever become ready while everything is todo -/
theorem C15_cycle_blocks (g : Graph) (hinv : AllInv g) (t : Task) (hc : WaitChain g t t)
    (hall : ∀ u ∈ g.tasks, u.st = .todo) : ¬ isReady g t = true :=
  cycle_blocks g hinv.ok.wf hinv.i14 t hc hall

/-- the witness of the known finding: two epics, one task in each, T1→T2 (task level) and E2→E1 (epic level) -/
def witnessLog : List Event :=
  [ .newItem true "E1" "u1" "" .todo "E1" "" (some 1), .newItem true "E2" "u2" "" .todo "E2" "" (some 2),
    .newItem false "T1" "u3" "E1" .todo "T1" "" (some 3), .newItem false "T2" "u4" "E2" .todo "T2" "" (some 4),
    .link "T1" "T2" true, .link "E2" "E1" true ]

/-- REFUTATION of the full property on the current tree: a log every step of which the CLI accepts, in which every task is
    todo and none is ready -/
theorem C15_refuted :
    ∃ g, replay witnessLog = .ok g ∧ (∃ t ∈ g.tasks, t.isEpic = false ∧ t.st = .todo) ∧
      (∀ t ∈ g.tasks, t.isEpic = false → t.st = .todo) ∧ ∀ t ∈ g.tasks, t.isEpic = false → isReady g t = false :=
  ⟨c15G, c15_replay, c15_facts⟩

/-- each of the two `sequence` commands of the witness is accepted by the per-level checks -/
theorem C15_witness_accepted :
    ∃ g1 g2, replay (witnessLog.take 4) = .ok g1 ∧ linkCheck g1 false "T1" "T2" = .ok () ∧
      replay (witnessLog.take 5) = .ok g2 ∧ linkCheck g2 false "E2" "E1" = .ok () :=
  ⟨_, _, c15_replay4, c15_link1, c15_replay5, c15_link2⟩

/-- PARTIAL result that holds today: without epic-level edges the waits-for relation is just the task-level dependency
    relation, which reachable stores keep acyclic — so progress holds for every store that uses no epic→epic dependency -/
theorem C15_partial_no_epic_edges (g : Graph) (hinv : AllInv g)
    (hnoepic : ∀ e ∈ g.deps, ∀ a ∈ g.tasks, a.id = e.1 → a.isEpic = false) : WaitsAcyclic g :=
  waitsAcyclic_of_no_epic_edges g hinv hnoepic

/-- state and claimant of every item follow from the order of the lines, not from their stamps: a `claim` recorded after an earlier
    claim-and-release stamped ahead (a collaborator's fast clock) leaves the task doing and claimed, so work that can proceed is handed out -/
theorem C15_state_follows_line_order_not_stamps {l l' : List Event} (h : SameLines l l') {g g' : Graph}
    (hr : replay l = .ok g) (hr' : replay l' = .ok g') (id : Id) :
    (g.find? id).map (fun t => (t.st, t.claimedBy, t.epicId)) = (g'.find? id).map (fun t => (t.st, t.claimedBy, t.epicId)) ∧ g.deps = g'.deps := by
  have := congrArg (Option.map fun t : Task => (t.st, t.claimedBy, t.epicId)) ((stamp_free_items h hr hr').1 id)
  exact ⟨by simpa [Option.map_map, Function.comp_def, Task.untimed] using this, (stamp_free_items h hr hr').2.1⟩

end Ergo
