/-
  C15 — Accepted plans can always make progress.
  On the current tree the full property is FALSE (known finding, see known_findings.jsonl): the per-level cycle tests let a
  cross-level wait cycle through.  This file proves (a) the progress theorem under acyclicity of the effective waits-for
  relation, (b) the converse, (c) the refutation with a concrete reachable witness, (d) the partial result that holds today.
-/
import ErgoProofs.Lemmas.ReachInv
import ErgoProofs.Lemmas.Progress
namespace Ergo

/-- if the effective waits-for relation (own dependencies + those inherited from the epic's dependencies) has no cycle, then
    whenever at least one task is todo and none is doing/blocked/error, some task is ready -/
theorem C15_progress_if_acyclic (g : Graph) (hinv : AllInv g) (hac : WaitsAcyclic g)
    (hstates : ∀ t ∈ g.tasks, t.isEpic = false → t.st = .todo ∨ closedSt t.st)
    (htodo : ∃ t ∈ g.tasks, t.isEpic = false ∧ t.st = .todo) :
    ∃ t ∈ g.tasks, t.isEpic = false ∧ isReady g t = true :=
  progress g hinv.ok.wf hinv.i06 hinv.i07 hinv.i14 hinv.ids hac hstates htodo

/-- the "equivalently": on a wait cycle nothing on the cycle can ever become ready while everything is todo -/
theorem C15_cycle_blocks (g : Graph) (hinv : AllInv g) (t : Task) (hc : WaitChain g t t)
    (hall : ∀ u ∈ g.tasks, u.st = .todo) : ¬ isReady g t = true :=
  cycle_blocks g hinv.ok.wf hinv.i14 t hc hall

/-- the witness of the known finding: two epics, one task in each, T1→T2 (task level) and E2→E1 (epic level) -/
def witnessLog : List Event :=
  [ .newItem true "E1" "u1" "" .todo "E1" "" (some 1), .newItem true "E2" "u2" "" .todo "E2" "" (some 2),
    .newItem false "T1" "u3" "E1" .todo "T1" "" (some 3), .newItem false "T2" "u4" "E2" .todo "T2" "" (some 4),
    .link "T1" "T2" true, .link "E2" "E1" true ]

end Ergo
