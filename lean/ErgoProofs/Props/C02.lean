import ErgoModel.Exec
namespace Ergo
theorem C02_placeholder : True := trivial
end Ergo
