/-
  C02 — Concurrent commands are serializable; acknowledged writes are never lost.
-/
import ErgoProofs.Lemmas.ConcReach
import ErgoProofs.Lemmas.ProgramThm
import ErgoProofs.Lemmas.ProcBytesThm
import ErgoProofs.Lemmas.LockFileThm
import ErgoProofs.Lemmas.FilesThm
import ErgoProofs.Lemmas.DiskConc
namespace Ergo
open Proc

/-- the log is exactly the committed sections applied one after the other in commit (= lock = real-time) order -/
theorem C02_log_is_serial_fold {log0 : List Event} {ws : List (List Event → Except CmdErr Write)} {nr : Nat} {s : Sys}
    (h : Reachable (Sys.init log0 ws nr) s) : s.log = logAfter log0 s.commits s.commits.length :=
  log_is_fold h

/-- each committed section decided on exactly the log its predecessors left: no lost update, no stale read -/
theorem C02_each_commit_decided_on_predecessors {log0 : List Event} {ws : List (List Event → Except CmdErr Write)} {nr : Nat} {s : Sys}
    (h : Reachable (Sys.init log0 ws nr) s) (i p : Nat) (snap : List Event) (w : Write)
    (hc : s.commits[i]? = some (p, snap, w)) :
    snap = logAfter log0 s.commits i ∧ ∃ d, ws[p]? = some d ∧ d snap = .ok w :=
  commit_decided h i p snap w hc

/-- every acknowledged mutation is in effect exactly once -/
theorem C02_acknowledged_exactly_once {log0 : List Event} {ws : List (List Event → Except CmdErr Write)} {nr : Nat} {s : Sys}
    (h : Reachable (Sys.init log0 ws nr) s) (p : Nat) (w : Writer) (snap : List Event) (wr : Write)
    (hw : s.writers[p]? = some w) (hp : w.phase = .finished (.ok snap wr)) :
    (p, snap, wr) ∈ s.commits ∧
    ∀ (i j : Nat) (c c' : List Event × Write), s.commits[i]? = some (p, c) → s.commits[j]? = some (p, c') → i = j :=
  ⟨finished_ok_committed h p w snap wr hw hp, fun i j c c' hi hj => commit_once h i j p c c' hi hj⟩

/-- a command that failed — lock busy included — contributed nothing -/
theorem C02_failed_contributes_nothing {log0 : List Event} {ws : List (List Event → Except CmdErr Write)} {nr : Nat} {s : Sys}
    (h : Reachable (Sys.init log0 ws nr) s) (p : Nat) (w : Writer) (hw : s.writers[p]? = some w)
    (hp : w.phase = .finished .busy ∨ ∃ snap e, w.phase = .finished (.failed snap e)) : ∀ c ∈ s.commits, c.1 ≠ p :=
  not_ok_not_committed h p w hw (by rcases hp with hp | hp; exact Or.inl hp; exact Or.inr (Or.inl hp))

/-- the concurrent result is a serial run: any interleaving (and any crashes) of processes that each run one lock section
    leaves a log that running the committed sections one at a time produces, hence every invariant holds -/
theorem C02_serializable_invariants (log0 : List Event) (envs : List (Env × Sec)) (nr : Nat) (s : Sys)
    (h : Reachable (Sys.init log0 (envs.map fun (es : Env × Sec) => secDecide es.1 es.2) nr) s)
    (h0 : SecReach log0) (hok : ∀ es ∈ envs, SecOK es.1 es.2)
    (hclock : ∀ (i p : Nat) (snap : List Event) (w : Write) (g : Graph), s.commits[i]? = some (p, snap, w) → replayRaw snap = .ok g →
               ∀ es : Env × Sec, envs[p]? = some es → EnvOK g es.1) :
    ∃ g, replayRaw s.log = .ok g ∧ AllInv g :=
  secReach_allInv _ (conc_secReach log0 envs nr s h h0 hok hclock)

/-- every CLI command is exactly one lock section (after the fix commits), so "command" and "section" coincide -/
theorem C02_one_section_per_command (log : List Event) (env : Env) (req : Request) (w : Write)
    (h : (runCmd log env req).write = some w) :
    ∃ sec out, sectionOf env.agent req = .ok sec ∧ runSec log env sec = .ok (w, out) ∧ (runCmd log env req).log = applyWrite log w := by
  unfold runCmd at h ⊢
  cases hs : sectionOf env.agent req with
  | error e => simp [hs] at h
  | ok sec =>
    cases hr : runSec log env sec with
    | error e => simp [hs, hr] at h
    | ok wo =>
      obtain ⟨w', out⟩ := wo
      simp [hs, hr] at h ⊢
      subst h
      trivial


/-! ### the observed system-call programs are lock sections (ErgoModel.Program, checked against strace on every run: T3) -/

/-- a program accepted by `writerOK` changes the log only strictly between its successful `flock(LOCK_EX|LOCK_NB)` and its `flock(LOCK_UN)`,
    and looks at the log's content only after it holds the lock -/
theorem C02_program_mutations_inside_the_lock (p : List Program.Call) (h : Program.writerOK p = true) :
    ∃ s, Program.split p = some s ∧ (∀ c ∈ s.before, Program.mutatesLog c = false) ∧ (∀ c ∈ s.after, Program.mutatesLog c = false) ∧
      (∀ c ∈ s.before, Program.readsLog c = false) :=
  Program.writerOK_mutations_inside p h

/-- inside the section: read before change, at most one write(2) to the live log, no in-place truncation or unlink -/
theorem C02_program_body (p : List Program.Call) (h : Program.writerOK p = true) :
    ∃ s, Program.split p = some s ∧ Program.logWrites s.inside ≤ 1 ∧ Program.Call.truncate .log ∉ s.inside ∧ Program.Call.unlink .log ∉ s.inside ∧
      (∀ pre c post, s.inside = pre ++ c :: post → Program.mutatesLog c = true → (∀ x ∈ pre, Program.mutatesLog x = false) → ∃ r ∈ pre, Program.readsLog r = true) :=
  Program.writerOK_body p h

/-- so the steps of the process model (`Proc.Step`: lockOk · read · write | decideErr · unlock) are an abstraction of it -/
theorem C02_program_refines_the_process_model (p : List Program.Call) (h : Program.writerOK p = true) :
    (Program.abstract p = [.lockOk, .read, .write, .unlock] ∨ Program.abstract p = [.lockOk, .read, .noWrite, .unlock] ∨ Program.abstract p = [.lockOk, .noWrite, .unlock]) :=
  Program.writerOK_abstract p h

/-- a process that found the lock taken neither read nor wrote: `Proc.Step.lockBusy` -/
theorem C02_busy_program_does_nothing (p : List Program.Call) (h : Program.busyOK p = true) :
    Program.abstract p = [.lockBusy] ∧ (∀ c ∈ p, Program.mutatesLog c = false ∧ Program.readsLog c = false) :=
  Program.busyOK_abstract p h


/-- the lock is one file: no program the predicates accept (writer, refused writer, reader) gives the name `.ergo/lock` to another file, unlinks
    or truncates it — a missing lock file is created in place.  (The process model has one `holder`; this is what makes that a model of `flock`
    on a *name*.) -/
theorem C02_lock_file_keeps_its_identity (p : List Program.Call)
    (h : Program.writerOK p = true ∨ Program.busyOK p = true ∨ Program.readerOK p = true) :
    ∀ c ∈ p, Program.mutatesLock c = false :=
  Program.lock_identity_kept p h

/-! ### the lock as a file name (ErgoModel.LockFile): `withLock` + `ensureFileExists` call by call, the lock file present or missing -/

/-- any number of processes, the lock file there or not (then several may create it at once), any schedule, any deaths:
    at most one process is inside a lock section — the abstract `holder` of the process model is the flock on the one inode
    the name `.ergo/lock` ever has -/
theorem C02_one_process_inside_whatever_the_lock_file (name : Option Nat) (fresh n : Nat) (s : LockFile.LSys)
    (h : LockFile.LReachable (LockFile.LSys.init name fresh n) s) {p q : Nat} (hp : s.inside p) (hq : s.inside q) : p = q :=
  LockFile.exclusive (LockFile.inv_reachable (LockFile.inv_init name fresh n) h) hp hq

/-- the non-blocking flock answers exactly like the guards of the process model's `lockOk` / `lockBusy`: it succeeds iff nobody is inside -/
theorem C02_flock_succeeds_iff_nobody_inside (name : Option Nat) (fresh n : Nat) (s : LockFile.LSys)
    (h : LockFile.LReachable (LockFile.LSys.init name fresh n) s) {p i : Nat} (hp : s.procs[p]? = some (LockFile.Ph.opened i)) :
    s.holder i = none ↔ ∀ q, ¬ s.inside q :=
  LockFile.flock_free_iff (LockFile.inv_reachable (LockFile.inv_init name fresh n) h) hp

/-- the name, once it exists, keeps its inode for ever (no step of ergo renames onto it or removes it) -/
theorem C02_lock_name_keeps_its_inode {a s : LockFile.LSys} (h : LockFile.LReachable a s) {i : Nat} (hn : a.name = some i) :
    s.name = some i :=
  LockFile.name_kept_reachable h hn

/-- what the hypothesis "never replaced" is worth: were the missing file created under another name and renamed into place
    (a seeded change did that), two processes could be inside at once -/
theorem C02_create_by_rename_would_break_exclusion :
    ∃ s, LockFile.RReachable (LockFile.LSys.init none 7 2) s ∧ s.inside 0 ∧ s.inside 1 :=
  LockFile.rename_breaks_exclusion

/-- the model's processes move along the automaton the traced programs are checked against (`LockFile.next`, T3) -/
theorem C02_lock_steps_follow_the_traced_automaton {s t : LockFile.LSys} (h : LockFile.LStep s t) :
    ∃ (p : Nat) (ph ph' : LockFile.Ph), s.procs[p]? = some ph ∧ t.procs[p]? = some ph' ∧ (∀ q : Nat, q ≠ p → t.procs[q]? = s.procs[q]?) ∧
      (ph' = LockFile.Ph.crashed ∨ ∃ (k k' : LockFile.Kind) (c : LockFile.LCall), ph.kind = some k ∧ ph'.kind = some k' ∧ LockFile.next k c = some k') :=
  LockFile.step_follows_next h

/-! ### the same processes over bytes (ErgoModel.ProcBytes: files in ergo's real line format, one `write(2)` per batch, rewrites by rename) -/

/-- refinement: a run of the byte-level system — any number of writers and readers, any schedule, deaths between system calls — is a run of the
    process model on the decoded files; so every theorem above is a theorem about what is on disk -/
theorem C02_bytes_refine_the_process_model {a b : ProcB.BSys} (h : ProcB.BReachableNT a b) (ha : ProcB.Inv a) :
    Proc.Reachable (ProcB.abs a) (ProcB.abs b) ∧ ProcB.Inv b :=
  ProcB.reach_sim h ha

/-- the bytes under the log's name decode to the committed sections applied one after the other, in lock order -/
theorem C02_bytes_are_the_serial_fold (f : Storage.Bytes) (ws : List (List Event → Except CmdErr Write)) (nr limit : Nat) (ets : Event → String)
    (es : List Event) (hf : Storage.readEvents Codec.classifyLine limit f = .ok es) (hfw : Codec.AllWf es)
    (hw : ∀ d ∈ ws, ∀ snap wr, Codec.AllWf snap → d snap = .ok wr → Codec.AllWf wr.events)
    (s : ProcB.BSys) (h : ProcB.BReachableNT (ProcB.BSys.init f ws nr limit ets) s) :
    Storage.readEvents Codec.classifyLine limit s.file = .ok (Proc.logAfter es s.commits s.commits.length) :=
  ProcB.bytes_are_serial_fold f ws nr limit ets es hf hfw hw s h

/-- the refinement to the process model's one lock: every step of the lock-file system leaves "who is inside" as it was, or lets one process into an
    empty section (`Proc.Step.lockOk`), or takes the one inside out (`unlockOk` / `crash`); and a flock refused as busy (`lockBusy`) means somebody is inside -/
theorem C02_lock_file_steps_are_the_abstract_lock_steps {s t : LockFile.LSys} (hI : LockFile.Inv s) (h : LockFile.LStep s t) :
    (∀ p, t.inside p ↔ s.inside p) ∨
    (∃ p, (∀ q, ¬ s.inside q) ∧ t.inside p ∧ ∀ q, t.inside q → q = p) ∨
    (∃ p, s.inside p ∧ ∀ q, ¬ t.inside q) :=
  LockFile.step_abstracts hI h

/-! ### `init` beside a writer (ErgoModel.Files) -/

/-- `init` creates a missing log without truncating: dropped between any two calls of any writer's program it changes nothing that can be read -/
theorem C02_init_between_any_two_calls_changes_nothing (s : Files.St) (ops : List Files.Op) (i : Nat) :
    (Files.run s (ops.take i ++ [.ensureLog false] ++ ops.drop i)).dir.log.getD [] = (Files.run s ops).dir.log.getD [] :=
  Files.ensure_between_calls s ops i

/-- the defect found by this check and repaired (`fix:` commit, DESIGN §6): created with `O_TRUNC`, an `init` that looked before a writer
    made and filled the log and acted afterwards emptied it -/
theorem C02_truncating_init_lost_an_acknowledged_batch :
    (Files.run { dir := { log := none, tmp := none } } (Files.appendClean true [123, 125, 10] ++ [.ensureLog true])).dir.log = some [] :=
  Files.ensure_with_trunc_loses_the_batch

/-- every open of an accepted program carries the flag those results depend on -/
theorem C02_program_open_flags (p : List Program.Call)
    (h : Program.writerOK p = true ∨ Program.busyOK p = true ∨ Program.readerOK p = true) : ∀ c ∈ p, c ≠ .openBad :=
  Program.open_flags_kept p h

/-- serializable on the bytes, hence every invariant of serial runs on the bytes: whatever the interleaving of ergo's own commands in the
    byte-level process system and whoever dies between two calls, the file under the log's name reads back (real line format) to a log that
    replays to a graph with the state/claim, dependency and epic invariants -/
theorem C02_bytes_under_every_schedule_keep_the_invariants (f : Storage.Bytes) (log0 : List Event) (envs : List (Env × Sec)) (nr limit : Nat)
    (ets : Event → String) (hf : Storage.readEvents Codec.classifyLine limit f = .ok log0) (hfw : Codec.AllWf log0) (h0 : SecReach log0)
    (hok : ∀ es ∈ envs, SecOK es.1 es.2) (hT : ∀ es ∈ envs, Codec.EnvT es.1)
    (s : ProcB.BSys) (h : ProcB.BReachableNT (ProcB.BSys.init f (envs.map fun (es : Env × Sec) => secDecide es.1 es.2) nr limit ets) s)
    (hclock : ∀ (i p : Nat) (snap : List Event) (w : Write) (g : Graph), s.commits[i]? = some (p, snap, w) → replayRaw snap = .ok g →
               ∀ es : Env × Sec, envs[p]? = some es → EnvOK g es.1) :
    ∃ L g, Storage.readEvents Codec.classifyLine limit s.file = .ok L ∧ replayRaw L = .ok g ∧ Inv06 g ∧ Inv07 g ∧ Inv14 g := by
  obtain ⟨L, g, hl, hg, hinv⟩ := ProcB.conc_disk_allInv f log0 envs nr limit ets hf hfw h0 hok hT s h hclock
  exact ⟨L, g, hl, hg, hinv.i06, hinv.i07, hinv.i14⟩

end Ergo
