/-
  C09 — prune removes exactly finished work; pruned ids are gone for good.
-/
import ErgoProofs.Lemmas.ReachInv
import ErgoProofs.Lemmas.Prune
namespace Ergo

/-- prune selects exactly the done/canceled tasks and the epics left without an unfinished child -/
theorem C09_policy (g : Graph) (id : Id) :
    id ∈ pruneTargets g ↔
      ∃ t ∈ g.tasks, t.id = id ∧
        ((t.isEpic = false ∧ (t.st = .done ∨ t.st = .canceled)) ∨
         (t.isEpic = true ∧ ∀ c ∈ g.tasks, c.isEpic = false → c.epicId ≠ "" → c.epicId = t.id → (c.st = .done ∨ c.st = .canceled))) :=
  mem_pruneTargets g id

/-- never a task in todo, doing, blocked or error -/
theorem C09_never_active (g : Graph) (hwf : WF g) (t : Task) (ht : t ∈ g.tasks) (hne : t.isEpic = false)
    (hst : t.st = .todo ∨ t.st = .doing ∨ t.st = .blocked ∨ t.st = .error) : t.id ∉ pruneTargets g := by
  apply pruneTargets_never_active g t ht hne hst
  intro u hu hid
  -- unique ids
  have hnd := hwf.nodup
  by_contra hne'
  have : ∀ (l : List Task), (l.map (·.id)).Nodup → u ∈ l → t ∈ l → u.id = t.id → u = t := by
    intro l
    induction l with
    | nil => intro _ h; cases h
    | cons x xs ih =>
      intro hnd hu ht hid
      simp only [List.map_cons, List.nodup_cons, List.mem_map, not_exists, not_and] at hnd
      rcases List.mem_cons.1 hu with rfl | hu' <;> rcases List.mem_cons.1 ht with rfl | ht'
      · rfl
      · exact absurd hid.symm (hnd.1 t ht')
      · exact absurd hid (hnd.1 u hu')
      · exact ih hnd.2 hu' ht' hid
  exact hne' (this g.tasks hnd hu ht hid)

/-- the dry run reports exactly the set `--yes` removes, and writes nothing -/
theorem C09_dry_run_same_set (g : Graph) (agent : String) (now : Time) :
    (secPrune g false agent now).2 = (secPrune g true agent now).2 ∧ (secPrune g false agent now).1 = .append [] :=
  prune_dry_eq_apply g agent now

/-- gone for good: whatever the order of a pruned id's create / update / link / tombstone events in a hand-merged log, and
    whatever follows, it is not live, no edge mentions it … -/
theorem C09_gone (evs more : List Event) (g : Graph) (id agent : Id) (ts : Option Time)
    (hmem : Event.tombstone id agent ts ∈ evs) (h : replay (evs ++ more) = .ok g) :
    g.has id = false ∧ (∀ e ∈ g.deps, e.1 ≠ id ∧ e.2 ≠ id) :=
  tombstone_stays_gone evs more g id agent ts hmem h

/-- … every command naming it is refused without writing … -/
theorem C09_refused (g : Graph) (id : Id) (hid : g.tombed id = true) (r : SetReq) (agent : String) (po : PathOutcome) (now : Time) (other : Id) :
    secUpdate g id r agent po now = .error (.pruned id) ∧
    linkCheck g false id other = .error (.pruned id) ∧ linkCheck g true id other = .error (.pruned id) := by
  simp [secUpdate, linkCheck, hid, bind, Except.bind, throw, throwThe, MonadExceptOf.throw]

/-- … and it is never issued again as a new id while its tombstone is in the log -/
theorem C09_never_reissued (g : Graph) (isEpic : Bool) (epicId title body : String) (follow : SetReq) (ids : List Id) (uuid agent : String)
    (po : PathOutcome) (now : Time) (w : Write) (id : Id)
    (h : secCreate g isEpic epicId title body follow ids uuid agent po now = .ok (w, id)) :
    g.tombed id = false ∧ g.has id = false ∧ id ∈ ids := by
  have ht := createTail_ok (secCreate_ok h).2
  have := ht.2.1
  simp only [Graph.taken, Bool.or_eq_false_iff] at this
  exact ⟨this.1, this.2, ht.1⟩

end Ergo
