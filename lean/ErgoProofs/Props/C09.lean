import ErgoModel.Exec
namespace Ergo
theorem C09_placeholder : True := trivial
end Ergo
