/-
  C12 — State is a total function of the log; reads are pure; history only grows.
  In Lean every model function is total and deterministic by construction; what is *proved* here is (1) independence of
  the order in which Go iterates its maps, (2) that every failure of the log reader is one of two classified errors and
  the reported line number names a physical line that does not parse, (3) that appends and plan extend the recorded
  history.  Absence of Go panics and hangs is observed by the check, not proved (see DESIGN.md).
-/
import ErgoProofs.Lemmas.ReachInv
import ErgoProofs.Lemmas.Ready
import ErgoProofs.Lemmas.StorageThm
import ErgoProofs.Lemmas.PlanShape
import ErgoProofs.Lemmas.PropsAux
import ErgoProofs.Lemmas.FileLog
import ErgoProofs.Lemmas.FilesThm
import ErgoProofs.Lemmas.StampFree
namespace Ergo

/-- claim order, prune set and compaction output do not depend on map iteration order (any permutation of the item and
    edge collections gives the same answer) -/
theorem C12_deterministic_queries (g g' : Graph) (hwf : WF g) (ht : g.tasks.Perm g'.tasks) (hd : g.deps.Perm g'.deps) (epic : Id) :
    readyTasks g epic = readyTasks g' epic ∧ pruneTargets g = pruneTargets g' ∧ compactEvents g = compactEvents g' :=
  ⟨readyTasks_perm g g' hwf ht hd epic, pruneTargets_perm g g' hwf ht, compactEvents_perm g g' hwf ht hd⟩

/-- the reader is total with two classified errors; "invalid JSON" names a 1-based physical line that indeed does not parse -/
theorem C12_reader_total_and_line_number {classify : Storage.Bytes → Storage.LineClass} {limit : Nat} (f : Storage.Bytes) :
    (∃ es, Storage.readEvents classify limit f = .ok es) ∨
    (∃ n, Storage.readEvents classify limit f = .error (.badLine n) ∧ 1 ≤ n ∧
          ∃ l, (Storage.scanLines f)[n - 1]? = some l ∧ classify l = .bad) ∨
    (Storage.readEvents classify limit f = .error .tooLong ∧ ∃ l ∈ Storage.scanLines f, l.length ≥ limit) := by
  cases h : Storage.readEvents classify limit f with
  | ok es => exact Or.inl ⟨es, rfl⟩
  | error e =>
    cases e with
    | badLine n => exact Or.inr (Or.inl ⟨n, rfl, Storage.badLine_names_bad_line f n h⟩)
    | tooLong => exact Or.inr (Or.inr ⟨rfl, Storage.tooLong_has_long_line f h⟩)

/-- replay is total on every event list: a graph or one of three classified errors (no other outcome exists) -/
theorem C12_replay_total (evs : List Event) :
    (∃ g, replay evs = .ok g) ∨ replay evs = .error .badData ∨ replay evs = .error .badTime ∨ ∃ i, replay evs = .error (.duplicate i) := by
  cases h : replay evs with
  | ok g => exact Or.inl ⟨g, rfl⟩
  | error e => cases e with
    | badData => exact Or.inr (Or.inl rfl)
    | badTime => exact Or.inr (Or.inr (Or.inl rfl))
    | duplicate i => exact Or.inr (Or.inr (Or.inr ⟨i, rfl⟩))

/-- every mutation other than compact only extends the recorded history (byte level: appends) … -/
theorem C12_append_extends {W : Event → Prop} {classify : Storage.Bytes → Storage.LineClass} {encode : Event → Storage.Bytes} {limit : Nat}
    (hc : Storage.CodecOn W classify encode) (f : Storage.Bytes) (es evs : List Event)
    (hr : Storage.readEvents classify limit f = .ok es) (hs : Storage.Short W encode limit evs) :
    Storage.readEvents classify limit (Storage.appendFile classify encode f evs) = .ok (es ++ evs) :=
  (Storage.appendFile_reads hc f es evs hr hs).1

/-- … (event level: every command except compact leaves the old log as a prefix of the new one) -/
theorem C12_history_grows (log : List Event) (env : Env) (req : Request) (hreq : ∀ a, sectionOf a req ≠ .ok .compact) :
    ∃ more, (runCmd log env req).log = log ++ more :=
  runCmd_extends log env req hreq

/-- read-only commands have no lock section at all in the model: they cannot write (T1/T3 check the same of the code) -/
theorem C12_failed_or_readonly_writes_nothing (log : List Event) (env : Env) (req : Request)
    (h : (runCmd log env req).write = none) : (runCmd log env req).log = log :=
  runCmd_nowrite_unchanged log env req h


/-- ergo's actual line format: appending a batch of well-formed events extends what is read by exactly that batch -/
theorem C12_append_extends_json (ets : Event → String) {limit : Nat} (f : Storage.Bytes) (es evs : List Event)
    (hr : Storage.readEvents Codec.classifyLine limit f = .ok es) (hs : Storage.Short Codec.Wf (Codec.encodeEvent ets) limit evs) :
    Storage.readEvents Codec.classifyLine limit (Storage.appendFile Codec.classifyLine (Codec.encodeEvent ets) f evs) = .ok (es ++ evs) :=
  (Storage.appendFile_reads (Codec.jsonCodec ets) f es evs hr hs).1

/-- what a line means is a function of its bytes, and a written line means the event it was written for: state is a function of the log *file* -/
theorem C12_written_line_means_its_event (ets : Event → String) (e : Event) (h : Codec.Wf e) :
    Codec.classifyLine (Codec.encodeEvent ets e) = .ev e :=
  Codec.classify_encode ets e h

/-- time stamps are recorded as text: the text written for an instant before year 10000 reads back as that instant -/
theorem C12_time_stamp_roundtrip (t : Time) (h : t < Time.maxT) : Time.parse (Time.format t) = some t :=
  Time.parse_format t h


/-- state is a function of the log *file*: after any sequence of commands run one at a time from the empty store (clock readings before year
    10000, lines shorter than the reader's limit), reading the bytes of `.ergo/plans.jsonl` with ergo's real line format gives exactly the event
    list the commands computed — so every theorem about reachable logs (C05–C11, C14–C16) is a theorem about what is on disk -/
theorem C12_file_decodes_to_the_log {limit : Nat} {log : List Event} {f : Storage.Bytes} (h : Codec.FileLog limit log f) :
    Storage.readEvents Codec.classifyLine limit f = .ok log ∧ Codec.AllWf log :=
  Codec.fileLog_reads h
/-- the calls `appendEvents` issues (open with `O_APPEND`, the repair of the tail, one write) leave under the log's name exactly `appendFile` —
    from every state of the temporary name and of the descriptors -/
theorem C12_append_calls_produce_the_appended_file (classify : Storage.Bytes → Storage.LineClass) (encode : Event → Storage.Bytes) (f : Storage.Bytes)
    (t : Option Storage.Bytes) (fds : Files.Fds) (evs : List Event) :
    (Files.run { dir := { log := some f, tmp := t }, fds } (Files.appendProgram classify f (Storage.linesOf encode evs))).dir.log
      = some (Storage.appendFile classify encode f evs) :=
  Files.appendProgram_result classify encode f t fds evs

/-- that rests on `O_APPEND` (a T3 obligation on every traced open of the log for writing): without it the newline that completes an
    unterminated last line overwrites the first byte of the log -/
theorem C12_without_append_mode_earlier_bytes_are_clobbered :
    (Files.run { dir := { log := some [123, 125], tmp := none } } (Files.appendUnterminated false [49, 10])).dir.log = some [10, 125, 49, 10] :=
  Files.appendUnterminated_without_append_clobbers

/-- the log — the *order of its lines* — is the only truth: the same lines carrying any other time stamps (a collaborator's clock that runs ahead,
    a clock set back between two commands, a hand merge) replay to the same graph up to the clock readings stored in it, or fail alike -/
theorem C12_replay_ignores_stamp_values {l l' : List Event} (h : SameLines l l') :
    (replay l).map Graph.untimed = (replay l').map Graph.untimed :=
  replay_stamp_free h

end Ergo
