import ErgoModel.Exec
namespace Ergo
theorem C12_placeholder : True := trivial
end Ergo
