import ErgoModel.Exec
namespace Ergo
theorem C06_placeholder : True := trivial
end Ergo
