/-
  C06 — State machine and claim invariants hold on every path.
  Only property statements live here; lemmas are in ErgoProofs/Lemmas.
-/
import ErgoProofs.Lemmas.ReachInv
import ErgoProofs.Lemmas.DiskInv
import ErgoProofs.Lemmas.DiskConc
namespace Ergo

/-- the transition table and claim rule the code uses (regenerated from model.go on every run) are the documented ones -/
theorem C06_tables_documented (a b : St) (c : String) :
    validTransition a b = (a == b || docTransition a b) ∧ claimInvariantOk a c = docClaimOk a c :=
  ⟨validTransition_eq a b, claimInvariantOk_eq a c⟩

/-- After any sequence of commands every task is in one of the six states, claimed when doing/error, unclaimed when
    todo/done/canceled; epics are todo and unclaimed. -/
theorem C06_inv_reach (log : List Event) (h : ReachOK log) : ∃ g, replay log = .ok g ∧ Inv06 g := by
  obtain ⟨g, hr, hinv⟩ := reach_replay log h
  exact ⟨g, hr, hinv.i06⟩

/-- Whatever combination of fields a set / claim / create request carries (state, claim incl. empty, implicit claim by
    --agent, claim without state), if it is accepted the item obeys the claim rule afterwards and its state either did not
    change or moved along an arrow of the documented table. -/
theorem C06_accepted_moves_in_table (t : Task) (u : Updates) (agent : String) (now : Time) (evs : List Event)
    (ht : TaskInv t) (hep : t.isEpic = true → u.state = none ∧ u.claim = none)
    (h : buildSetEvents t u agent now = .ok evs) :
    TaskInv (evs.foldl stepTask t) ∧
    ((evs.foldl stepTask t).st = t.st ∨ docTransition t.st (evs.foldl stepTask t).st = true) :=
  set_task_inv t u agent now evs ht hep h

/-- a request that names a state is rejected unless the state is one of the six and the table allows the move -/
theorem C06_state_request_checked (t : Task) (claim : Option String) (now : Time) (s : String) (l : List Event)
    (h : evState t claim now (some s) = .ok l) :
    (St.ofString s).valid = true ∧ (t.st = St.ofString s ∨ docTransition t.st (St.ofString s) = true) := by
  rcases evState_ok h with ⟨hx, -⟩ | ⟨s', hs, hv, htr, -, -⟩
  · cases hx
  · injection hs with hs; subst hs; exact ⟨hv, htr⟩

/-- a non-empty claim without a state implies doing — and only where the table allows it -/
theorem C06_claim_implies_doing_checked (t : Task) (cv : String) (now : Time) (l : List Event) (hcv : cv ≠ "")
    (hE : t.isEpic = false) (h : evTrail t (some cv) false now = .ok l) :
    t.st = .doing ∨ docTransition t.st .doing = true := by
  rcases evTrail_ok h with ⟨hc, -⟩ | ⟨-, htr, -⟩
  · simp [hE, hcv] at hc
  · exact htr

/-- a rejected request leaves the store untouched -/
theorem C06_rejected_untouched (log : List Event) (env : Env) (req : Request) (e : CmdErr)
    (h : (runCmd log env req).err = some e) : (runCmd log env req).log = log :=
  (runCmd_err_unchanged log env req e h).1

/-- non-vacuity: the invariant is about real states — a reachable store with a doing, claimed task -/
example : ∃ t : Task, TaskInv t ∧ t.st = .doing ∧ t.claimedBy = "a" :=
  ⟨{ (freshTask false "T" "u" "" "t" "" 1) with st := .doing, claimedBy := "a" }, by
    refine ⟨⟨fun h => by simp [freshTask] at h, fun _ => ⟨rfl, rfl⟩⟩, rfl, rfl⟩⟩

/-- the same about what is **on disk**: after any command history (ids non-empty, clock readings positive, non-decreasing and before year
    10000, lines shorter than the reader's limit) the bytes of `.ergo/plans.jsonl` read back — with ergo's real line format — to a log that
    replays to a graph in which every item obeys the state and claim rules -/
theorem C06_inv_holds_of_the_bytes_on_disk {limit : Nat} {log : List Event} {f : Storage.Bytes} (h : Codec.DiskReach limit log f) :
    ∃ g, Storage.readEvents Codec.classifyLine limit f = .ok log ∧ replay log = .ok g ∧ Inv06 g := by
  obtain ⟨g, hf, hr, hinv⟩ := Codec.disk_allInv h
  exact ⟨g, hf, hr, hinv.i06⟩

/-- "on every path" includes concurrent ones, on the bytes: ergo's own lock sections as writers of the byte-level process system, any schedule,
    deaths between system calls — the file under the log's name reads back to a log in whose graph every item obeys the state and claim rules -/
theorem C06_inv_concurrent_on_disk (f : Storage.Bytes) (log0 : List Event) (envs : List (Env × Sec)) (nr limit : Nat)
    (ets : Event → String) (hf : Storage.readEvents Codec.classifyLine limit f = .ok log0) (hfw : Codec.AllWf log0) (h0 : SecReach log0)
    (hok : ∀ es ∈ envs, SecOK es.1 es.2) (hT : ∀ es ∈ envs, Codec.EnvT es.1)
    (s : ProcB.BSys) (h : ProcB.BReachableNT (ProcB.BSys.init f (envs.map fun (es : Env × Sec) => secDecide es.1 es.2) nr limit ets) s)
    (hclock : ∀ (i p : Nat) (snap : List Event) (w : Write) (g : Graph), s.commits[i]? = some (p, snap, w) → replayRaw snap = .ok g →
               ∀ es : Env × Sec, envs[p]? = some es → EnvOK g es.1) :
    ∃ L g, Storage.readEvents Codec.classifyLine limit s.file = .ok L ∧ replayRaw L = .ok g ∧ Inv06 g := by
  obtain ⟨L, g, hl, hg, hinv⟩ := ProcB.conc_disk_allInv f log0 envs nr limit ets hf hfw h0 hok hT s h hclock
  exact ⟨L, g, hl, hg, hinv.i06⟩

end Ergo
