/-
  C08 — ready/blocked mean what the manual says; claim takes the oldest ready task.
-/
import ErgoProofs.Lemmas.ReachInv
import ErgoProofs.Lemmas.Ready
import ErgoProofs.Lemmas.DiskInv
namespace Ergo

/-- ready ⇔ todo, unclaimed, every task it depends on is done/canceled (or gone), every epic its epic depends on has only
    done/canceled children -/
theorem C08_ready_iff (g : Graph) (hwf : WF g) (t : Task) : isReady g t = true ↔ ReadySpec g t :=
  isReady_iff g hwf t

/-- blocked ⇔ state blocked, or todo + unclaimed + not ready -/
theorem C08_blocked_iff (g : Graph) (hwf : WF g) (t : Task) : isBlocked g t = true ↔ BlockedSpec g t :=
  isBlocked_iff g hwf t

/-- a dependency on a pruned id holds nothing back: replay drops every edge at a tombstoned id -/
theorem C08_pruned_dep_gone (evs : List Event) (g : Graph) (id agent : Id) (ts : Option Time)
    (hmem : Event.tombstone id agent ts ∈ evs) (h : replay evs = .ok g) : ∀ e ∈ g.deps, e.1 ≠ id ∧ e.2 ≠ id :=
  (tombstone_gone evs g id agent ts hmem h).2.1

/-- `list --ready` / `claim` range over exactly the ready non-epic items (of the epic given by --epic, if any) -/
theorem C08_ready_list_exact (g : Graph) (epic : Id) (t : Task) :
    t ∈ readyTasks g epic ↔ t ∈ g.tasks ∧ t.isEpic = false ∧ isReady g t = true ∧ (epic = "" ∨ t.epicId = epic) :=
  mem_readyTasks g epic t

/-- `claim` hands out the ready task with the earliest creation time (ties by id), never an epic -/
theorem C08_claim_takes_oldest (g : Graph) (epic agent : String) (now : Time) (w : Write) (t : Task)
    (h : secClaimOldest g epic agent now = .ok (w, t)) :
    t ∈ g.tasks ∧ t.isEpic = false ∧ isReady g t = true ∧ (∀ u ∈ readyTasks g epic, claimLe t u = true) := by
  unfold secClaimOldest at h
  cases hr : readyTasks g epic with
  | nil => simp [hr] at h
  | cons t' rest =>
    simp only [hr] at h
    injection h with h
    injection h with _ h2
    subst h2
    have hm := (mem_readyTasks g epic t').1 (by rw [hr]; simp)
    have hmin := readyTasks_head_min g epic t' rest hr
    exact ⟨hm.1, hm.2.1, hm.2.2.1, fun u hu => hmin u (hr ▸ hu)⟩

/-- and says nothing is ready exactly when the ready set is empty -/
theorem C08_no_ready_iff_empty (g : Graph) (epic agent : String) (now : Time) :
    secClaimOldest g epic agent now = .error .noReady ↔
      ∀ t ∈ g.tasks, ¬ (t.isEpic = false ∧ isReady g t = true ∧ (epic = "" ∨ t.epicId = epic)) := by
  rw [← readyTasks_nil_iff]
  unfold secClaimOldest
  cases readyTasks g epic <;> simp

/-- the answers do not depend on the order in which Go's maps are iterated -/
theorem C08_order_independent (g g' : Graph) (hwf : WF g) (ht : g.tasks.Perm g'.tasks) (hd : g.deps.Perm g'.deps) (epic : Id) :
    readyTasks g epic = readyTasks g' epic :=
  readyTasks_perm g g' hwf ht hd epic

/-- every reachable store has unique ids, so the theorems above apply to it -/
theorem C08_applies_to_reachable (log : List Event) (h : ReachOK log) : ∃ g, replay log = .ok g ∧ WF g := by
  obtain ⟨g, hr, hinv⟩ := reach_replay log h; exact ⟨g, hr, hinv.ok.wf⟩

/-- and so does what is **on disk**: after any command history the bytes of the store read back (real line format) to a log whose graph has
    unique ids — `ready_iff`, `ready_list_exact`, `claim_takes_oldest` speak about the file the next command will read -/
theorem C08_applies_to_the_bytes_on_disk {limit : Nat} {log : List Event} {f : Storage.Bytes} (h : Codec.DiskReach limit log f) :
    ∃ g, Storage.readEvents Codec.classifyLine limit f = .ok log ∧ replay log = .ok g ∧ WF g := by
  obtain ⟨g, hf, hr, hinv⟩ := Codec.disk_allInv h
  exact ⟨g, hf, hr, hinv.ok.wf⟩

end Ergo
