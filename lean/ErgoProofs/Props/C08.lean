import ErgoModel.Exec
namespace Ergo
theorem C08_placeholder : True := trivial
end Ergo
