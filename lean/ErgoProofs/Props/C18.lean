/-
  C18 — Every command finds the same store, and init never hides data.
  Model: ErgoModel/Path.lean; the file system is a parameter `fs : path → Kind` (symlinks not modelled).
-/
import ErgoProofs.Lemmas.PathThm
namespace Ergo
open Path

/-- discovery depends only on the absolute directory a --dir spelling denotes (absolute, relative, trailing slash, `.`,
    `..`, the .ergo directory itself): equal directories, equal answer -/
theorem C18_spelling_independent (fs : P → Kind) (cwd s1 s2 : P) (h : absPath cwd s1 = absPath cwd s2) :
    resolveErgoDir fs cwd s1 = resolveErgoDir fs cwd s2 :=
  resolve_spelling fs cwd s1 s2 h

/-- what the walk returns exists, is a directory named `.ergo`, sits directly under the start directory or one of its
    ancestors, and is the nearest such: no directory in between has a `.ergo` entry -/
theorem C18_nearest_enclosing (fs : P → Kind) (n : Nat) (start d : P) (h : resolveWalk fs n start = some (.ok d)) :
    fs d = .dir ∧ ∃ k, d = join [iterDir k start, ergoName] ∧ ∀ j, j < k → fs (join [iterDir j start, ergoName]) = .missing := by
  obtain ⟨k, hk, hnear⟩ := resolveWalk_nearest fs n start d h
  exact ⟨(resolveWalk_sound fs n start d h).1, k, hk, hnear⟩

/-- all commands read and write the same file: plans.jsonl if present, else events.jsonl if present, else plans.jsonl
    (T1 `log_name_uses` checks that `getEventsPath` is the only place in the source that builds a log path) -/
theorem C18_one_log_file (plans events : Bool) :
    eventsFile plans events = (if plans then "plans.jsonl" else if events then "events.jsonl" else "plans.jsonl") := rfl

/-- `init` on an existing store never changes which file holds the log, for all combinations of present files … -/
theorem C18_init_hides_nothing (plans events lock : Bool) (h : plans = true ∨ events = true) :
    let (p', e', _) := initFiles plans events lock
    eventsFile p' e' = eventsFile plans events :=
  init_keeps_log plans events lock h

/-- … is idempotent, and recreates a missing lock file -/
theorem C18_init_idempotent (plans events lock : Bool) :
    let (p', e', l') := initFiles plans events lock
    initFiles p' e' l' = (p', e', l') ∧ l' = true := by
  cases plans <;> cases events <;> cases lock <;> simp [initFiles]

end Ergo
