import ErgoModel.Exec
namespace Ergo
theorem C18_placeholder : True := trivial
end Ergo
