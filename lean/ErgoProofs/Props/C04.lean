/-
  C04 — Multi-event commands are all-or-nothing across process death (kill between two system calls).
  After the fix commits every command is one lock section whose events go to the log in ONE write(2)
  (append) or by tmp-file + rename (plan, compact).  Kill points between system calls therefore see either
  the file before the write/rename or the file after it; T3 (strace) checks the one-write shape on every run.
-/
import ErgoProofs.Lemmas.StorageThm
import ErgoProofs.Lemmas.ReachInv
import ErgoProofs.Lemmas.CodecInst
namespace Ergo
open Storage

variable {W : Event → Prop} {classify : Bytes → LineClass} {encode : Event → Bytes} {limit : Nat}

/-- the file states a kill between two system calls of an appending command can leave: the write(2) has not been
    entered (at most the tail repair happened) or it has completed -/
inductive AppendCrashState (classify : Bytes → LineClass) (encode : Event → Bytes) (f : Bytes) (evs : List Event) : Bytes → Prop where
  | before : AppendCrashState classify encode f evs f
  | repaired : AppendCrashState classify encode f evs (repairTail classify f)
  | after : AppendCrashState classify encode f evs (appendFile classify encode f evs)

/-- all or nothing: a reader of any such state sees exactly the events before the command or exactly those after it -/
theorem C04_append_all_or_nothing (hc : CodecOn W classify encode) (f g : Bytes) (es evs : List Event)
    (hr : readEvents classify limit f = .ok es) (hs : Short W encode limit evs)
    (h : AppendCrashState classify encode f evs g) :
    readEvents classify limit g = .ok es ∨ readEvents classify limit g = .ok (es ++ evs) := by
  cases h with
  | before => exact Or.inl hr
  | repaired => exact Or.inl (readEvents_repairTail f es hr).1
  | after => exact Or.inr (appendFile_reads hc f es evs hr hs).1

/-- plan / compact: the log name points to the complete old file until the rename and to the complete new one after it -/
theorem C04_replace_all_or_nothing (hc : CodecOn W classify encode) (f : Bytes) (es evs : List Event)
    (hr : readEvents classify limit f = .ok es) (hs : Short W encode limit evs) (renamed : Bool) :
    readEvents classify limit (if renamed then replaceFile encode evs else f) = .ok (if renamed then evs else es) := by
  cases renamed
  · simpa using hr
  · simpa [replaceFile] using readEvents_linesOf hc evs hs

/-- hence no kill can leave a task claimed-but-todo or doing-but-unclaimed: both visible states satisfy the invariant -/
theorem C04_no_half_claim (log : List Event) (h : ReachOK log) (env : Env) (req : Request) (g : Graph) (henv : EnvOK g env)
    (hg : replayRaw log = .ok g) :
    (∃ g0, replay log = .ok g0 ∧ Inv06 g0) ∧ (∃ g1, replay (runCmd log env req).log = .ok g1 ∧ Inv06 g1) := by
  refine ⟨?_, ?_⟩
  · obtain ⟨g0, h0, hi⟩ := reach_replay log h; exact ⟨g0, h0, hi.i06⟩
  · obtain ⟨g1, h1, hi⟩ := reach_replay _ (ReachOK.step env req h hg henv); exact ⟨g1, h1, hi.i06⟩


/-- ergo's actual line format: a multi-event append killed at any point shows all of the batch or none of it -/
theorem C04_append_all_or_nothing_json (ets : Event → String) (f g : Bytes) (es evs : List Event)
    (hr : readEvents Codec.classifyLine limit f = .ok es) (hs : Short Codec.Wf (Codec.encodeEvent ets) limit evs)
    (hk : AppendCrashState Codec.classifyLine (Codec.encodeEvent ets) f evs g) :
    readEvents Codec.classifyLine limit g = .ok es ∨ readEvents Codec.classifyLine limit g = .ok (es ++ evs) :=
  C04_append_all_or_nothing (Codec.jsonCodec ets) f g es evs hr hs hk

end Ergo
