import ErgoModel.Exec
namespace Ergo
theorem C04_placeholder : True := trivial
end Ergo
