/-
  ErgoProofs.Witness — NON-VACUITY of the property theorems.

  Almost every `Cxx_…` theorem is an implication (`ReachOK log`, `SecReach log`, `replayRaw log = .ok g`, `AllInv g`, `EnvOK g env`,
  `Storage.Codec classify encode`, `Storage.Short …`, `Proc.Reachable (Sys.init …) s`, …).  This file exhibits concrete, non-trivial
  objects satisfying those hypotheses and instantiates representative theorems of every property file on them:

  A. a concrete CLI history of eleven commands (`env1 … env11`, `req1 … req11`, `log0 … log11 = demoLog`), each of which succeeds;
     `demo_reach : ReachOK demoLog`, `demo_secReach : SecReach demoLog` (in fact `ReachOK ⊆ SecReach`), `demo_nontrivial`.
  B. `example`s instantiating theorems of C04–C12, C14–C17, C19, C20 on that history.
  C. `codec_exists` (a unary prefix-free line code), `short_exists`, and C03 / C04 / C05 / C11 / C12 / C13 byte-level theorems
     instantiated with it.
  D. four concrete runs of the process model (`demo_proc`, `race_contended`, `race_sequential`, `two_winners`) and C01 / C02 / C07 / C13
     instantiated on them.

  No placeholder proofs and no added assumptions; closed evaluations are by `decide` (a few by `decide +kernel`, i.e. evaluation by the kernel itself, where
  `List.mergeSort` — defined by well-founded recursion — has to be unfolded).
-/
import Mathlib.Tactic.DeriveEncodable
import Mathlib.Logic.Equiv.List
import ErgoProofs.Lemmas.ConcReach
import ErgoProofs.Props.C01
import ErgoProofs.Props.C02
import ErgoProofs.Props.C03
import ErgoProofs.Props.C04
import ErgoProofs.Props.C05
import ErgoProofs.Props.C06
import ErgoProofs.Props.C07
import ErgoProofs.Props.C08
import ErgoProofs.Props.C09
import ErgoProofs.Props.C10
import ErgoProofs.Props.C11
import ErgoProofs.Props.C12
import ErgoProofs.Props.C13
import ErgoProofs.Props.C14
import ErgoProofs.Props.C15
import ErgoProofs.Props.C16
import ErgoProofs.Props.C17
import ErgoProofs.Props.C18
import ErgoProofs.Props.C19
import ErgoProofs.Props.C20
namespace Ergo
namespace Witness

/-! ## A. a concrete history -/

def jsonIn (t : TaskInput) : RawInput := { piped := true, json := some t }

def env1 : Env := { agent := "ag-1", times := [100], ids := ["EEEEEE"], uuids := ["uuid-e"] }
def req1 : Request := .newEpic (jsonIn { title := some "Release 1.0" })

def env2 : Env := { agent := "ag-1", times := [200], ids := ["AAAAAA"], uuids := ["uuid-a"] }
def req2 : Request := .newTask (jsonIn { title := some "Write the code", body := some "all of it", epic := some "EEEEEE" })

def env3 : Env := { agent := "ag-1", times := [300], ids := ["AAAAAA", "BBBBBB"], uuids := ["uuid-b"] }
def req3 : Request := .newTask (jsonIn { title := some "Test the code", epic := some "EEEEEE" })

def env4 : Env := { agent := "ag-1", times := [400] }
def req4 : Request := .sequence ["AAAAAA", "BBBBBB"]

def env5 : Env := { agent := "ag-1", times := [500] }
def req5 : Request := .claimOldest ""

def env6 : Env := { agent := "ag-1", times := [600], po := .ok "out/report.txt" "sha-1" "mtime-1" "git-1" }
def req6 : Request := .set "AAAAAA" (jsonIn { state := some "done", resultPath := some "out/report.txt", resultSummary := some "code written" })

def env7 : Env := { agent := "ag-2", times := [700], ids := ["CCCCCC"], uuids := ["uuid-c"] }
def req7 : Request := .newTask (jsonIn { title := some "Ship it", epic := some "EEEEEE", state := some "blocked" })

def env8 : Env := { agent := "ag-2", times := [800] }
def req8 : Request := .sequence ["BBBBBB", "CCCCCC"]

def env9 : Env := { agent := "ag-2", times := [900] }
def req9 : Request := .prune true

def env10 : Env := { agent := "ag-2", times := [1000] }
def req10 : Request := .claim "BBBBBB"

def env11 : Env := { agent := "ag-2", times := [1100] }
def req11 : Request := .compact

def log0 : List Event := []
def log1 := (runCmd log0 env1 req1).log
def log2 := (runCmd log1 env2 req2).log
def log3 := (runCmd log2 env3 req3).log
def log4 := (runCmd log3 env4 req4).log
def log5 := (runCmd log4 env5 req5).log
def log6 := (runCmd log5 env6 req6).log
def log7 := (runCmd log6 env7 req7).log
def log8 := (runCmd log7 env8 req8).log
def log9 := (runCmd log8 env9 req9).log
def log10 := (runCmd log9 env10 req10).log
def log11 := (runCmd log10 env11 req11).log


/-! the same logs written out -/
def lit0 : List Event :=
  []
def lit1 : List Event :=
  [.newItem true "EEEEEE" "uuid-e" "" .todo "Release 1.0" "" (some 100)]
def lit2 : List Event :=
  [.newItem true "EEEEEE" "uuid-e" "" .todo "Release 1.0" "" (some 100),
   .newItem false "AAAAAA" "uuid-a" "EEEEEE" .todo "Write the code" "all of it" (some 200)]
def lit3 : List Event :=
  [.newItem true "EEEEEE" "uuid-e" "" .todo "Release 1.0" "" (some 100),
   .newItem false "AAAAAA" "uuid-a" "EEEEEE" .todo "Write the code" "all of it" (some 200),
   .newItem false "BBBBBB" "uuid-b" "EEEEEE" .todo "Test the code" "" (some 300)]
def lit4 : List Event :=
  [.newItem true "EEEEEE" "uuid-e" "" .todo "Release 1.0" "" (some 100),
   .newItem false "AAAAAA" "uuid-a" "EEEEEE" .todo "Write the code" "all of it" (some 200),
   .newItem false "BBBBBB" "uuid-b" "EEEEEE" .todo "Test the code" "" (some 300),
   .link "BBBBBB" "AAAAAA" true]
def lit5 : List Event :=
  [.newItem true "EEEEEE" "uuid-e" "" .todo "Release 1.0" "" (some 100),
   .newItem false "AAAAAA" "uuid-a" "EEEEEE" .todo "Write the code" "all of it" (some 200),
   .newItem false "BBBBBB" "uuid-b" "EEEEEE" .todo "Test the code" "" (some 300),
   .link "BBBBBB" "AAAAAA" true,
   .claim "AAAAAA" "ag-1" (some 500),
   .state "AAAAAA" .doing (some 500)]
def lit6 : List Event :=
  [.newItem true "EEEEEE" "uuid-e" "" .todo "Release 1.0" "" (some 100),
   .newItem false "AAAAAA" "uuid-a" "EEEEEE" .todo "Write the code" "all of it" (some 200),
   .newItem false "BBBBBB" "uuid-b" "EEEEEE" .todo "Test the code" "" (some 300),
   .link "BBBBBB" "AAAAAA" true,
   .claim "AAAAAA" "ag-1" (some 500),
   .state "AAAAAA" .doing (some 500),
   .result "AAAAAA" "code written" "out/report.txt" "sha-1" "mtime-1" "git-1" (some 600),
   .state "AAAAAA" .done (some 600)]
def lit7 : List Event :=
  [.newItem true "EEEEEE" "uuid-e" "" .todo "Release 1.0" "" (some 100),
   .newItem false "AAAAAA" "uuid-a" "EEEEEE" .todo "Write the code" "all of it" (some 200),
   .newItem false "BBBBBB" "uuid-b" "EEEEEE" .todo "Test the code" "" (some 300),
   .link "BBBBBB" "AAAAAA" true,
   .claim "AAAAAA" "ag-1" (some 500),
   .state "AAAAAA" .doing (some 500),
   .result "AAAAAA" "code written" "out/report.txt" "sha-1" "mtime-1" "git-1" (some 600),
   .state "AAAAAA" .done (some 600),
   .newItem false "CCCCCC" "uuid-c" "EEEEEE" .todo "Ship it" "" (some 700),
   .state "CCCCCC" .blocked (some 700)]
def lit8 : List Event :=
  [.newItem true "EEEEEE" "uuid-e" "" .todo "Release 1.0" "" (some 100),
   .newItem false "AAAAAA" "uuid-a" "EEEEEE" .todo "Write the code" "all of it" (some 200),
   .newItem false "BBBBBB" "uuid-b" "EEEEEE" .todo "Test the code" "" (some 300),
   .link "BBBBBB" "AAAAAA" true,
   .claim "AAAAAA" "ag-1" (some 500),
   .state "AAAAAA" .doing (some 500),
   .result "AAAAAA" "code written" "out/report.txt" "sha-1" "mtime-1" "git-1" (some 600),
   .state "AAAAAA" .done (some 600),
   .newItem false "CCCCCC" "uuid-c" "EEEEEE" .todo "Ship it" "" (some 700),
   .state "CCCCCC" .blocked (some 700),
   .link "CCCCCC" "BBBBBB" true]
def lit9 : List Event :=
  [.newItem true "EEEEEE" "uuid-e" "" .todo "Release 1.0" "" (some 100),
   .newItem false "AAAAAA" "uuid-a" "EEEEEE" .todo "Write the code" "all of it" (some 200),
   .newItem false "BBBBBB" "uuid-b" "EEEEEE" .todo "Test the code" "" (some 300),
   .link "BBBBBB" "AAAAAA" true,
   .claim "AAAAAA" "ag-1" (some 500),
   .state "AAAAAA" .doing (some 500),
   .result "AAAAAA" "code written" "out/report.txt" "sha-1" "mtime-1" "git-1" (some 600),
   .state "AAAAAA" .done (some 600),
   .newItem false "CCCCCC" "uuid-c" "EEEEEE" .todo "Ship it" "" (some 700),
   .state "CCCCCC" .blocked (some 700),
   .link "CCCCCC" "BBBBBB" true,
   .tombstone "AAAAAA" "ag-2" (some 900)]
def lit10 : List Event :=
  [.newItem true "EEEEEE" "uuid-e" "" .todo "Release 1.0" "" (some 100),
   .newItem false "AAAAAA" "uuid-a" "EEEEEE" .todo "Write the code" "all of it" (some 200),
   .newItem false "BBBBBB" "uuid-b" "EEEEEE" .todo "Test the code" "" (some 300),
   .link "BBBBBB" "AAAAAA" true,
   .claim "AAAAAA" "ag-1" (some 500),
   .state "AAAAAA" .doing (some 500),
   .result "AAAAAA" "code written" "out/report.txt" "sha-1" "mtime-1" "git-1" (some 600),
   .state "AAAAAA" .done (some 600),
   .newItem false "CCCCCC" "uuid-c" "EEEEEE" .todo "Ship it" "" (some 700),
   .state "CCCCCC" .blocked (some 700),
   .link "CCCCCC" "BBBBBB" true,
   .tombstone "AAAAAA" "ag-2" (some 900),
   .claim "BBBBBB" "ag-2" (some 1000),
   .state "BBBBBB" .doing (some 1000)]
def lit11 : List Event :=
  [.newItem false "BBBBBB" "uuid-b" "EEEEEE" .todo "Test the code" "" (some 300),
   .state "BBBBBB" .doing (some 1000),
   .claim "BBBBBB" "ag-2" (some 1000),
   .newItem false "CCCCCC" "uuid-c" "EEEEEE" .todo "Ship it" "" (some 700),
   .state "CCCCCC" .blocked (some 700),
   .newItem true "EEEEEE" "uuid-e" "" .todo "Release 1.0" "" (some 100),
   .link "CCCCCC" "BBBBBB" true]

/-! the graphs these logs replay to -/
def tE  : Task := freshTask true  "EEEEEE" "uuid-e" "" "Release 1.0" "" 100
def tA0 : Task := freshTask false "AAAAAA" "uuid-a" "EEEEEE" "Write the code" "all of it" 200
def tB0 : Task := freshTask false "BBBBBB" "uuid-b" "EEEEEE" "Test the code" "" 300
/-- A after `claim` by ag-1 -/
def tA1 : Task := { tA0 with st := .doing, claimedBy := "ag-1", lastClaim := 500, lastState := 500, updatedAt := 500 }
/-- A after `set state=done` with a result attached -/
def tA2 : Task := { tA1 with st := .done, claimedBy := "", lastState := 600, updatedAt := 600,
                             results := [⟨"code written", "out/report.txt", "sha-1", "mtime-1", "git-1", 600⟩] }
/-- C is created and moved to `blocked` in one section -/
def tC1 : Task := { freshTask false "CCCCCC" "uuid-c" "EEEEEE" "Ship it" "" 700 with st := .blocked, lastState := 700 }
/-- B after `claim BBBBBB` by ag-2 -/
def tB1 : Task := { tB0 with st := .doing, claimedBy := "ag-2", lastClaim := 1000, lastState := 1000, updatedAt := 1000 }

def g0  : Graph := Graph.empty
def g1  : Graph := ⟨[tE], [], []⟩
def g2  : Graph := ⟨[tE, tA0], [], []⟩
def g3  : Graph := ⟨[tE, tA0, tB0], [], []⟩
def g4  : Graph := ⟨[tE, tA0, tB0], [("BBBBBB", "AAAAAA")], []⟩
def g5  : Graph := ⟨[tE, tA1, tB0], [("BBBBBB", "AAAAAA")], []⟩
def g6  : Graph := ⟨[tE, tA2, tB0], [("BBBBBB", "AAAAAA")], []⟩
def g7  : Graph := ⟨[tE, tA2, tB0, tC1], [("BBBBBB", "AAAAAA")], []⟩
def g8  : Graph := ⟨[tE, tA2, tB0, tC1], [("BBBBBB", "AAAAAA"), ("CCCCCC", "BBBBBB")], []⟩
def g9  : Graph := ⟨[tE, tB0, tC1], [("CCCCCC", "BBBBBB")], ["AAAAAA"]⟩
def g10 : Graph := ⟨[tE, tB1, tC1], [("CCCCCC", "BBBBBB")], ["AAAAAA"]⟩
def g11 : Graph := ⟨[tB1, tC1, tE], [("CCCCCC", "BBBBBB")], []⟩

theorem raw0 : replayRaw lit0 = .ok g0 := by decide
theorem raw1 : replayRaw lit1 = .ok g1 := by decide
theorem raw2 : replayRaw lit2 = .ok g2 := by decide
theorem raw3 : replayRaw lit3 = .ok g3 := by decide
theorem raw4 : replayRaw lit4 = .ok g4 := by decide
theorem raw5 : replayRaw lit5 = .ok g5 := by decide
theorem raw6 : replayRaw lit6 = .ok g6 := by decide
theorem raw7 : replayRaw lit7 = .ok g7 := by decide
theorem raw8 : replayRaw lit8 = .ok g8 := by decide
theorem raw9 : replayRaw lit9 = .ok g9 := by decide
theorem raw10 : replayRaw lit10 = .ok g10 := by decide
theorem raw11 : replayRaw lit11 = .ok g11 := by decide

/-! each environment is admissible for the store it runs on -/
theorem envOK1 : EnvOK g0 env1 := ⟨by decide, by decide, by decide, by decide⟩
theorem envOK2 : EnvOK g1 env2 := ⟨by decide, by decide, by decide, by decide⟩
theorem envOK3 : EnvOK g2 env3 := ⟨by decide, by decide, by decide, by decide⟩
theorem envOK4 : EnvOK g3 env4 := ⟨by decide, by decide, by decide, by decide⟩
theorem envOK5 : EnvOK g4 env5 := ⟨by decide, by decide, by decide, by decide⟩
theorem envOK6 : EnvOK g5 env6 := ⟨by decide, by decide, by decide, by decide⟩
theorem envOK7 : EnvOK g6 env7 := ⟨by decide, by decide, by decide, by decide⟩
theorem envOK8 : EnvOK g7 env8 := ⟨by decide, by decide, by decide, by decide⟩
theorem envOK9 : EnvOK g8 env9 := ⟨by decide, by decide, by decide, by decide⟩
theorem envOK10 : EnvOK g9 env10 := ⟨by decide, by decide, by decide, by decide⟩
theorem envOK11 : EnvOK g10 env11 := ⟨by decide, by decide, by decide, by decide⟩

/-! each command succeeds and produces the next log -/
theorem run1 : (runCmd lit0 env1 req1).err = none ∧ (runCmd lit0 env1 req1).log = lit1 := by decide
theorem run2 : (runCmd lit1 env2 req2).err = none ∧ (runCmd lit1 env2 req2).log = lit2 := by decide
theorem run3 : (runCmd lit2 env3 req3).err = none ∧ (runCmd lit2 env3 req3).log = lit3 := by decide
theorem run4 : (runCmd lit3 env4 req4).err = none ∧ (runCmd lit3 env4 req4).log = lit4 := by decide
theorem run5 : (runCmd lit4 env5 req5).err = none ∧ (runCmd lit4 env5 req5).log = lit5 := by decide +kernel
theorem run6 : (runCmd lit5 env6 req6).err = none ∧ (runCmd lit5 env6 req6).log = lit6 := by decide
theorem run7 : (runCmd lit6 env7 req7).err = none ∧ (runCmd lit6 env7 req7).log = lit7 := by decide
theorem run8 : (runCmd lit7 env8 req8).err = none ∧ (runCmd lit7 env8 req8).log = lit8 := by decide
theorem run9 : (runCmd lit8 env9 req9).err = none ∧ (runCmd lit8 env9 req9).log = lit9 := by decide +kernel
theorem run10 : (runCmd lit9 env10 req10).err = none ∧ (runCmd lit9 env10 req10).log = lit10 := by decide
theorem replay10 : replay lit10 = .ok g10 := by decide
theorem sort10 : [tE, tB1, tC1].mergeSort taskIdLe = [tB1, tC1, tE] := by
  have h1 : taskIdLe tE tB1 = false := by decide
  have h2 : taskIdLe tB1 tC1 = true := by decide
  have h3 : taskIdLe tE tC1 = false := by decide
  simp [List.mergeSort, List.MergeSort.Internal.splitInTwo, h1, h2, h3]
theorem compact10 : compactEvents g10 = lit11 := by
  have h : (g10.deps.mergeSort edgeLe) = [("CCCCCC", "BBBBBB")] := by simp [g10]
  rw [compactEvents, h]
  simp only [g10, sort10]
  decide
theorem run11 : (runCmd lit10 env11 req11).err = none ∧ (runCmd lit10 env11 req11).log = lit11 := by
  simp [runCmd, sectionOf, req11, runSec, replay10, secCompact, applyWrite, compact10]

/-! the logs defined by running the commands are the written-out ones -/
theorem log0_eq : log0 = lit0 := rfl
theorem log1_eq : log1 = lit1 := by rw [log1, log0_eq]; exact run1.2
theorem log2_eq : log2 = lit2 := by rw [log2, log1_eq]; exact run2.2
theorem log3_eq : log3 = lit3 := by rw [log3, log2_eq]; exact run3.2
theorem log4_eq : log4 = lit4 := by rw [log4, log3_eq]; exact run4.2
theorem log5_eq : log5 = lit5 := by rw [log5, log4_eq]; exact run5.2
theorem log6_eq : log6 = lit6 := by rw [log6, log5_eq]; exact run6.2
theorem log7_eq : log7 = lit7 := by rw [log7, log6_eq]; exact run7.2
theorem log8_eq : log8 = lit8 := by rw [log8, log7_eq]; exact run8.2
theorem log9_eq : log9 = lit9 := by rw [log9, log8_eq]; exact run9.2
theorem log10_eq : log10 = lit10 := by rw [log10, log9_eq]; exact run10.2
theorem log11_eq : log11 = lit11 := by rw [log11, log10_eq]; exact run11.2

/-- the demo history: eleven commands from the empty store -/
def demoLog : List Event := log11
theorem demoLog_eq : demoLog = lit11 := log11_eq

/-- every command of the history succeeded (stated on the logs as *defined by running the commands*) -/
theorem demo_all_succeed :
    (runCmd log0 env1 req1).err = none ∧ (runCmd log1 env2 req2).err = none ∧ (runCmd log2 env3 req3).err = none ∧
    (runCmd log3 env4 req4).err = none ∧ (runCmd log4 env5 req5).err = none ∧ (runCmd log5 env6 req6).err = none ∧
    (runCmd log6 env7 req7).err = none ∧ (runCmd log7 env8 req8).err = none ∧ (runCmd log8 env9 req9).err = none ∧
    (runCmd log9 env10 req10).err = none ∧ (runCmd log10 env11 req11).err = none := by
  rw [log0_eq, log1_eq, log2_eq, log3_eq, log4_eq, log5_eq, log6_eq, log7_eq, log8_eq, log9_eq, log10_eq]
  exact ⟨run1.1, run2.1, run3.1, run4.1, run5.1, run6.1, run7.1, run8.1, run9.1, run10.1, run11.1⟩

/-! reachability of every prefix -/
theorem reach0 : ReachOK lit0 := ReachOK.init
theorem reach1 : ReachOK lit1 := run1.2 ▸ ReachOK.step env1 req1 reach0 raw0 envOK1
theorem reach2 : ReachOK lit2 := run2.2 ▸ ReachOK.step env2 req2 reach1 raw1 envOK2
theorem reach3 : ReachOK lit3 := run3.2 ▸ ReachOK.step env3 req3 reach2 raw2 envOK3
theorem reach4 : ReachOK lit4 := run4.2 ▸ ReachOK.step env4 req4 reach3 raw3 envOK4
theorem reach5 : ReachOK lit5 := run5.2 ▸ ReachOK.step env5 req5 reach4 raw4 envOK5
theorem reach6 : ReachOK lit6 := run6.2 ▸ ReachOK.step env6 req6 reach5 raw5 envOK6
theorem reach7 : ReachOK lit7 := run7.2 ▸ ReachOK.step env7 req7 reach6 raw6 envOK7
theorem reach8 : ReachOK lit8 := run8.2 ▸ ReachOK.step env8 req8 reach7 raw7 envOK8
theorem reach9 : ReachOK lit9 := run9.2 ▸ ReachOK.step env9 req9 reach8 raw8 envOK9
theorem reach10 : ReachOK lit10 := run10.2 ▸ ReachOK.step env10 req10 reach9 raw9 envOK10
theorem reach11 : ReachOK lit11 := run11.2 ▸ ReachOK.step env11 req11 reach10 raw10 envOK11

theorem demo_reach : ReachOK demoLog := demoLog_eq ▸ reach11

/-- the state just before `compact` (it still has the tombstone of the pruned task) -/
theorem demo_reach_before_compact : ReachOK log10 := log10_eq ▸ reach10

/-! ### every CLI-reachable log is section-reachable (so `SecReach` is inhabited by the same history) -/

theorem secOK_of_sectionOf (env : Env) (req : Request) (sec : Sec) (h : sectionOf env.agent req = .ok sec) : SecOK env sec := by
  cases sec with
  | create isEpic epicId title body follow => exact sectionOf_create_titled env.agent req isEpic epicId title body follow h
  | claimOldest epic => exact sectionOf_claimOldest_agent env.agent req epic h
  | plan p => exact sectionOf_plan_valid env.agent req p h
  | update _ _ => trivial
  | links _ _ => trivial
  | prune _ => trivial
  | compact => trivial

theorem secReach_of_reachOK (log : List Event) (h : ReachOK log) : SecReach log := by
  induction h with
  | init => exact SecReach.init
  | @step log g env req _ hr henv ih =>
    cases hw : (runCmd log env req).write with
    | none => rw [runCmd_nowrite_unchanged log env req hw]; exact ih
    | some w =>
      obtain ⟨sec, out, hs, hrun, hlog⟩ := C02_one_section_per_command log env req w hw
      rw [hlog]
      exact SecReach.step env sec w out ih hr henv (secOK_of_sectionOf env req sec hs) hrun

theorem demo_secReach : SecReach demoLog := secReach_of_reachOK _ demo_reach

/-! ### the final store is not trivial -/
theorem demo_raw : replayRaw demoLog = .ok g11 := demoLog_eq ▸ raw11

/-- an epic, two live tasks (one `doing` and claimed, one `blocked`), a dependency edge; and just before compaction a tombstone -/
theorem demo_nontrivial :
    (∃ t ∈ g11.tasks, t.isEpic = true) ∧
    2 ≤ (g11.tasks.filter fun t => !t.isEpic).length ∧
    ("CCCCCC", "BBBBBB") ∈ g11.deps ∧
    (∃ t ∈ g11.tasks, t.st = .doing ∧ t.claimedBy = "ag-2") ∧
    (∃ t ∈ g11.tasks, t.st = .blocked) ∧
    (∃ t ∈ g11.tasks, t.isEpic = false ∧ t.epicId = "EEEEEE") ∧
    g10.tombs = ["AAAAAA"] ∧
    (∃ t ∈ g8.tasks, t.st = .done ∧ t.results.length = 1) := by decide

/-! ## B. the property theorems, instantiated on this history -/

theorem allInv_of {log : List Event} {g : Graph} (h : ReachOK log) (hr : replayRaw log = .ok g) : AllInv g := by
  obtain ⟨g', hr', hinv⟩ := reach_allInv log h
  rw [hr] at hr'; injection hr' with e; exact e ▸ hinv

theorem inv4  : AllInv g4  := allInv_of reach4 raw4
theorem inv5  : AllInv g5  := allInv_of reach5 raw5
theorem inv8  : AllInv g8  := allInv_of reach8 raw8
theorem inv9  : AllInv g9  := allInv_of reach9 raw9
theorem inv10 : AllInv g10 := allInv_of reach10 raw10
theorem inv11 : AllInv g11 := allInv_of reach11 raw11

/-- the main theorem on the demo history: what the commands compute on is `g11`, and it satisfies every invariant -/
theorem demo_replay : replay demoLog = .ok g11 := replay_eq_raw demo_raw inv11.ok
example : ∃ g, replay demoLog = .ok g ∧ AllInv g := reach_replay demoLog demo_reach
example : ∃ g, replayRaw demoLog = .ok g ∧ AllInv g := secReach_allInv demoLog demo_secReach

/-! C04 -/
example : (∃ g0, replay lit4 = .ok g0 ∧ Inv06 g0) ∧ (∃ g1, replay (runCmd lit4 env5 req5).log = .ok g1 ∧ Inv06 g1) :=
  C04_no_half_claim lit4 reach4 env5 req5 g4 envOK5 raw4

/-! C05: compaction of the store that still holds the tombstone and the claimed task -/
example : ∃ g g', replay log10 = .ok g ∧ replay (compactEvents g) = .ok g' ∧ ObsEq g' g ∧ g'.tombs = [] ∧
    (∀ i ∈ g.tombs, g'.has i = false) ∧ AllInv g' := C05_observables_preserved log10 demo_reach_before_compact
theorem replay11 : replay lit11 = .ok g11 := replay_eq_raw raw11 inv11.ok
/-- concretely: `g11` (after) and `g10` (before) show the same -/
example : compactEvents g11 = compactEvents g10 :=
  C05_idempotent lit10 reach10 g10 g11 replay10 (compact10 ▸ replay11)
example : ReachOK (runCmd lit10 env11 .compact).log := C05_compaction_is_a_reachable_step lit10 reach10 g10 raw10 env11 envOK11
/-- C05 (torn claim): lit4 — E, A, B with B waiting for A — plus the whole claim line of a `claim` of A whose state line was cut:
    A is todo with claimant "cut" (not a CLI-reachable state); compaction keeps exactly that -/
example : ∃ g g', replay (lit4 ++ [Event.claim "AAAAAA" "cut" (some 450)]) = .ok g ∧ replay (compactEvents g) = .ok g' ∧ ObsEq g' g ∧ g'.tombs = [] :=
  C05_half_written_claim_preserved lit4 reach4 "AAAAAA" "cut" 450 (by decide)
example : (replay (lit4 ++ [Event.claim "AAAAAA" "cut" (some 450)])).toOption.bind (fun g => (g.find? "AAAAAA").map fun t => (t.st, t.claimedBy))
    = some (.todo, "cut") := by decide

/-- C05 on a log no CLI history produces (stamps decreasing, a claim on a todo task): items survive compaction -/
example : ∃ g', replayRaw (compactEvents g5) = .ok g' ∧ (∀ id, (g'.find? id).map Task.core = (g5.find? id).map Task.core) ∧
    (∀ e, e ∈ g'.deps ↔ e ∈ g5.deps) ∧ g'.tombs = [] := C05_items_survive_compaction_of_any_log lit5 g5 raw5

/-! the order of the lines, not their stamps: lit5 (A claimed by ag-1 at 500) with the claim and the state stamped in the year dot (1) — the same graph up to clock readings -/
def lit5skew : List Event := lit4 ++ [.claim "AAAAAA" "ag-1" (some 1), .state "AAAAAA" .doing (some 1)]
theorem same45 : SameLines lit5 lit5skew :=
  .cons id (.cons id (.cons id (.cons id (.cons (fun _ => 1) (.cons (fun _ => 1) .nil)))))
example : (replay lit5).map Graph.untimed = (replay lit5skew).map Graph.untimed := C12_replay_ignores_stamp_values same45
example : ∃ g', replay lit5skew = .ok g' := stamp_free_ok same45 (replay_eq_raw raw5 inv5.ok)

/-! C06 -/
example : ∃ g, replay demoLog = .ok g ∧ Inv06 g := C06_inv_reach demoLog demo_reach
example : TaskInv tB1 := inv11.i06 tB1 (by decide)
example : (runCmd lit10 { agent := "ag-3", times := [1200] } (.set "BBBBBB" (jsonIn { state := some "error", claim := some "" }))).log = lit10 :=
  C06_rejected_untouched lit10 _ _ .validation (by decide)
/-- an illegal transition (blocked → error) is refused -/
example : (runCmd lit10 { agent := "ag-3", times := [1200] } (.set "CCCCCC" (jsonIn { state := some "error" }))).log = lit10 :=
  C06_rejected_untouched lit10 _ _ .badTransition (by decide)
example : TaskInv ((([Event.claim "AAAAAA" "ag-1" (some 500), Event.state "AAAAAA" .doing (some 500)] : List Event).foldl stepTask tA0)) :=
  (C06_accepted_moves_in_table tA0 { claim := some "ag-1", state := some "doing" } "ag-1" 500 _ (inv4.i06 tA0 (by decide))
    (by intro h; cases h) (by decide)).1

/-! C07 -/
example : ∃ g, replay demoLog = .ok g ∧ Inv07 g ∧ (∀ e ∈ g.deps, e.1 ≠ e.2) ∧ (∀ e ∈ g.deps, e.1 ∉ g.tombs ∧ e.2 ∉ g.tombs) :=
  C07_inv_reach demoLog demo_reach
/-- the opposite edge B→C would close a cycle with C→B: the test says so, and the command is refused -/
example : "BBBBBB" = "CCCCCC" ∨ Path g11.deps "CCCCCC" "BBBBBB" := (C07_cycle_test_exact g11 "BBBBBB" "CCCCCC").1 (by decide)
example : (runCmd lit11 { agent := "ag-3" } (.sequence ["CCCCCC", "BBBBBB"])).err = some .depCycle := by decide
/-- the edge that was accepted in step 8 satisfied every rule -/
example : g7.tombed "CCCCCC" = false ∧ g7.tombed "BBBBBB" = false ∧ "CCCCCC" ≠ "BBBBBB" ∧ ¬ Path g7.deps "BBBBBB" "CCCCCC" ∧
    ∃ a b, g7.find? "CCCCCC" = some a ∧ g7.find? "BBBBBB" = some b ∧ a.isEpic = b.isEpic :=
  C07_link_accepted_only_if g7 "CCCCCC" "BBBBBB" (by decide)

/-! C08 -/
/-- after A was pruned, B (which waited for A) is ready in the manual's sense -/
example : ReadySpec g9 tB0 := (C08_ready_iff g9 inv9.ok.wf tB0).1 (by decide)
/-- while A was still todo, B was not ready but blocked -/
example : BlockedSpec g4 tB0 := (C08_blocked_iff g4 inv4.ok.wf tB0).1 (by decide)
example : ∀ e ∈ g10.deps, e.1 ≠ "AAAAAA" ∧ e.2 ≠ "AAAAAA" :=
  C08_pruned_dep_gone lit10 g10 "AAAAAA" "ag-2" (some 900) (by decide) replay10
/-- step 5 took the oldest ready task -/
example : tA0 ∈ g4.tasks ∧ tA0.isEpic = false ∧ isReady g4 tA0 = true ∧ (∀ u ∈ readyTasks g4 "", claimLe tA0 u = true) :=
  C08_claim_takes_oldest g4 "" "ag-1" 500 (.append [Event.claim "AAAAAA" "ag-1" (some 500), Event.state "AAAAAA" .doing (some 500)]) tA0
    (by decide +kernel)
example : ∃ g, replay demoLog = .ok g ∧ WF g := C08_applies_to_reachable demoLog demo_reach

/-! C09 -/
/-- step 9 pruned A because it was a done task; the epic stayed because B and C remain -/
example : ∃ t ∈ g8.tasks, t.id = "AAAAAA" ∧
    ((t.isEpic = false ∧ (t.st = .done ∨ t.st = .canceled)) ∨
     (t.isEpic = true ∧ ∀ c ∈ g8.tasks, c.isEpic = false → c.epicId ≠ "" → c.epicId = t.id → (c.st = .done ∨ c.st = .canceled))) :=
  (C09_policy g8 "AAAAAA").1 (by decide +kernel)
example : tB0.id ∉ pruneTargets g8 := C09_never_active g8 inv8.ok.wf tB0 (by decide) rfl (Or.inl rfl)
example : g10.has "AAAAAA" = false ∧ (∀ e ∈ g10.deps, e.1 ≠ "AAAAAA" ∧ e.2 ≠ "AAAAAA") :=
  C09_gone lit9 [Event.claim "BBBBBB" "ag-2" (some 1000), Event.state "BBBBBB" .doing (some 1000)] g10 "AAAAAA" "ag-2" (some 900)
    (by decide) replay10
example : secUpdate g10 "AAAAAA" {} "ag-3" (.rejected "none") 1200 = .error (.pruned "AAAAAA") :=
  (C09_refused g10 "AAAAAA" (by decide) {} "ag-3" (.rejected "none") 1200 "BBBBBB").1
/-- step 3: the RNG first proposed the live id "AAAAAA"; the id issued is fresh -/
example : g2.tombed "BBBBBB" = false ∧ g2.has "BBBBBB" = false ∧ "BBBBBB" ∈ ["AAAAAA", "BBBBBB"] :=
  C09_never_reissued g2 false "EEEEEE" "Test the code" "" {} ["AAAAAA", "BBBBBB"] "uuid-b" "ag-1" (.rejected "none") 300
    (.append [Event.newItem false "BBBBBB" "uuid-b" "EEEEEE" .todo "Test the code" "" (some 300)]) "BBBBBB" (by decide)

/-! C10 -/
example : (runCmd lit10 { agent := "ag-3", times := [1200] } (.claim "AAAAAA")).log = lit10 ∧
    (runCmd lit10 { agent := "ag-3", times := [1200] } (.claim "AAAAAA")).write = none :=
  C10_failure_changes_nothing lit10 _ _ (.pruned "AAAAAA") (by decide)
example (ets : Event → String) (f : Storage.Bytes) :
    Codec.fileAfter ets f (runCmd lit10 { agent := "ag-3", times := [1200] } (.claim "AAAAAA")).write = f :=
  C10_failure_leaves_every_byte lit10 _ _ (.pruned "AAAAAA") ets f (by decide)
example : secLinks g11 false [("EEEEEE", "BBBBBB")] = .error .depKinds :=
  C10_sequence_all_or_nothing g11 false _ _ (by decide)

/-! C11 -/
def demoPlan : PlanInput :=
  { title := some "Release 2.0",
    tasks := [{ title := some "design" }, { title := some "build", after := ["design"] },
              { title := some "ship", body := some "to everyone", after := ["design", "build"] }] }
theorem demoPlan_valid : planValid demoPlan = true := by decide
example : Acyclic (planEdges demoPlan) := ((C11_valid_iff demoPlan).1 demoPlan_valid).2.2.2.2.2.2
def envP : Env := { agent := "ag-3", times := [1200, 1201, 1202, 1203], ids := ["PPPPPP", "QQQQQQ", "BBBBBB", "RRRRRR", "SSSSSS"],
                    uuids := ["uuid-p", "uuid-q", "uuid-r", "uuid-s"] }
theorem envOKP : EnvOK g11 envP := ⟨by decide, by decide, by decide, by decide⟩
theorem runP : (runCmd lit11 envP (.plan (some demoPlan))).err = none := by decide
example : ∃ w, (runCmd lit11 envP (.plan (some demoPlan))).write = some w ∧
    (∃ new, w = .replace (lit11 ++ new) ∧ (runCmd lit11 envP (.plan (some demoPlan))).log = lit11 ++ new) ∧
    ∃ g', replay (runCmd lit11 envP (.plan (some demoPlan))).log = .ok g' ∧ AllInv g' := by
  cases hw : (runCmd lit11 envP (.plan (some demoPlan))).write with
  | none => exact absurd runP (C16_no_write_means_error lit11 envP _ hw (fun e h => by cases h))
  | some w => exact ⟨w, rfl, C11_effect lit11 reach11 g11 raw11 envP envOKP demoPlan w hw⟩
example : (runCmd lit11 envP (.plan (some { demoPlan with title := some "  " }))).log = lit11 :=
  (C11_invalid_nothing lit11 envP _ (Or.inr ⟨_, rfl, by decide⟩)).1

/-! C12 -/
example : readyTasks g9 "" = readyTasks ⟨[tC1, tB0, tE], g9.deps, g9.tombs⟩ "" ∧
    pruneTargets g9 = pruneTargets ⟨[tC1, tB0, tE], g9.deps, g9.tombs⟩ ∧
    compactEvents g9 = compactEvents ⟨[tC1, tB0, tE], g9.deps, g9.tombs⟩ :=
  C12_deterministic_queries g9 ⟨[tC1, tB0, tE], g9.deps, g9.tombs⟩ inv9.ok.wf
    (by decide) (List.Perm.refl _) ""
example : ∃ more, (runCmd lit9 env10 req10).log = lit9 ++ more :=
  C12_history_grows lit9 env10 req10 (by intro a; simp [req10, sectionOf]; split <;> simp)

/-! C14 -/
example : ∃ g, replay demoLog = .ok g ∧ Inv14 g ∧ WF g := C14_inv_reach demoLog demo_reach
/-- prune in step 9 had to keep the epic: B (not pruned) references it -/
example : tE.id ∉ pruneTargets g8 :=
  C14_prune_keeps_referenced_epics g8 inv8.ok.wf tB0 tE (by decide) (by decide) rfl rfl rfl (by decide)
    (C09_never_active g8 inv8.ok.wf tB0 (by decide) rfl (Or.inl rfl))
/-- moving C under the plain task B, or creating a task under the (compacted-away) id of A, is refused -/
example : ∃ err, updateEvents g11 tC1 { u := { epic := some "BBBBBB" } } "ag-3" (.rejected "none") 1200 = .error err :=
  C14_set_rejects_bad_epic g11 tC1 "BBBBBB" _ _ _ _ rfl (by decide) rfl rfl (Or.inr (Or.inr ⟨tB1, by decide, rfl⟩))
example : ∃ err, secCreate g11 false "AAAAAA" "x" "" {} ["XXXXXX"] "u" "ag-3" (.rejected "none") 1200 = .error err :=
  C14_create_rejects_bad_epic g11 "AAAAAA" "x" "" {} ["XXXXXX"] "u" "ag-3" _ 1200 (by decide) (Or.inl (by decide))

/-! C15 (the part that holds): no epic-level edges in the demo store, so waits are acyclic and a todo task is ready -/
example : WaitsAcyclic g4 := C15_partial_no_epic_edges g4 inv4 (by decide)
example : ∃ t ∈ g4.tasks, t.isEpic = false ∧ isReady g4 t = true :=
  C15_progress_if_acyclic g4 inv4 (C15_partial_no_epic_edges g4 inv4 (by decide)) (by unfold closedSt; decide) (by decide)

/-! C16 -/
/-- step 6 (`set A state=done` + result): the reply is what the next read shows -/
example : ∃ g' t', replay (runCmd lit5 env6 req6).log = .ok g' ∧ g'.find? "AAAAAA" = some t' ∧
    replyOf env6 req6 (runCmd lit5 env6 req6) = some (.set "AAAAAA" (updatedFields (jsonIn { state := some "done", resultPath := some "out/report.txt", resultSummary := some "code written" })) t'.st t'.claimedBy) :=
  C16_set_reply_is_next_read lit5 g5 raw5 inv5 env6 envOK6 "AAAAAA" _ run6.1
/-- step 5 (`claim`, oldest ready) -/
example : ∃ t g' t', (readyTasks g4 "").head? = some t ∧ replay (runCmd lit4 env5 req5).log = .ok g' ∧ g'.find? t.id = some t' ∧
      t'.st = .doing ∧ t'.claimedBy = env5.agent ∧ t'.title = t.title ∧ t'.body = t.body ∧ t'.epicId = t.epicId ∧
      replyOf env5 req5 (runCmd lit4 env5 req5) = some (.claimed t.id t.epicId .doing t.title t.body env5.agent env5.now) :=
  C16_claim_oldest_reply_is_next_read lit4 g4 raw4 inv4 env5 envOK5 (by decide) "" (by decide +kernel)
/-- step 10 (`claim BBBBBB`) -/
example : ∃ g' t', replay (runCmd lit9 env10 req10).log = .ok g' ∧ g'.find? "BBBBBB" = some t' ∧
      t'.st = .doing ∧ t'.claimedBy = env10.agent ∧
      replyOf env10 req10 (runCmd lit9 env10 req10) =
        some (.claimed "BBBBBB" t'.epicId .doing t'.title t'.body env10.agent (claimedAt t')) :=
  C16_claim_id_reply_is_next_read lit9 g9 raw9 inv9 env10 envOK10 "BBBBBB" run10.1
/-- step 9 (`prune --yes`) -/
example : replyOf env9 req9 (runCmd lit8 env9 req9) = some (.pruned false (pruneTargets g8)) :=
  C16_prune_reply_is_policy lit8 g8 raw8 inv8 env9 true
/-- step 8 (`sequence B C`) -/
example : ∃ un es g', replyOf env8 req8 (runCmd lit7 env8 req8) = some (.sequence un es) ∧
      replay (runCmd lit7 env8 req8).log = .ok g' ∧ ∀ e ∈ es, (e ∈ g'.deps) = !un :=
  C16_sequence_reply_is_next_read lit7 g7 raw7 (allInv_of reach7 raw7) env8 envOK8 _ run8.1
/-- step 7 (`new task` with state=blocked) -/
example : let res := runCmd lit6 env7 req7
    ∃ g' t', replay res.log = .ok g' ∧ res.out.created = some t'.id ∧ g'.find? t'.id = some t' ∧
      replyOf env7 req7 res = some (.created t'.isEpic t'.id t'.uuid t'.epicId t'.st t'.title t'.body t'.createdAt) :=
  C16_created_reply_is_next_read lit6 g6 raw6 (allInv_of reach6 raw6) env7 envOK7 _ true run7.1

/-! C17, C19, C20 -/
example : ∃ g g', replay log8 = .ok g ∧ replay (compactEvents g) = .ok g' ∧
      ∀ id, (g'.find? id).map (fun t => (t.title, t.body)) = (g.find? id).map (fun t => (t.title, t.body)) :=
  C17_through_compact log8 (log8_eq ▸ reach8)
example : ∃ g, replay demoLog = .ok g ∧ ((Render.rows g .all).map (·.id)).Perm (g.tasks.map (·.id)) := C19_all_complete demoLog demo_reach
example : ∃ g, replay demoLog = .ok g ∧ ∀ t ∈ g.tasks, t.isEpic = false → (t.id ∈ (Render.rows g .ready).map (·.id) ↔ isReady g t = true) :=
  C19_ready_exact demoLog demo_reach
/-- the store of step 8 holds a result; compaction keeps it -/
example : ∃ g g', replay log8 = .ok g ∧ replay (compactEvents g) = .ok g' ∧
      ∀ id, (g'.find? id).map (·.results) = (g.find? id).map (·.results) := C20_compact_keeps_results log8 (log8_eq ▸ reach8)
example : g5.tombed "AAAAAA" = false ∧ ∃ t, g5.find? "AAAAAA" = some t ∧ t.isEpic = false ∧ resultSummaryOk "code written" = true ∧
    ∃ c sha m gi, env6.po = .ok c sha m gi :=
  C20_live_task_only g5 "AAAAAA" { u := { state := some "done" }, resultPath := some "out/report.txt", resultSummary := some "code written" }
    "ag-1" env6.po 600 (.append [lit6[6], lit6[7]]) "code written" "out/report.txt" ⟨rfl, rfl⟩ (by decide)

/-! more of C16 / C17 / C20, on the sections the commands ran -/
theorem replay4 : replay lit4 = .ok g4 := by decide
theorem replay8 : replay lit8 = .ok g8 := by decide
theorem ready4 : readyTasks g4 "" = [tA0] := by decide +kernel

/-- step 9 as a lock section -/
theorem runSec9 : runSec lit8 env9 (.prune true) =
    .ok ((secPrune g8 true "ag-2" 900).1, { pruned := (secPrune g8 true "ag-2" 900).2, now := 900 }) := by
  unfold runSec; rw [replay8]; rfl
example : (secPrune g8 true "ag-2" 900).2 = pruneTargets g8 ∧ ∃ g', replayRaw (applyWrite lit8 (secPrune g8 true "ag-2" 900).1) = .ok g' ∧
      (∀ i ∈ (secPrune g8 true "ag-2" 900).2, g'.has i = false) ∧
      (∀ t ∈ g8.tasks, t.id ∉ (secPrune g8 true "ag-2" 900).2 → g'.has t.id = true) :=
  C16_prune_reply_true lit8 g8 raw8 inv8 env9 envOK9 _ _ runSec9

/-- step 5 as a lock section -/
theorem runSec5 : runSec lit4 env5 (.claimOldest "") =
    .ok (.append [Event.claim "AAAAAA" "ag-1" (some 500), Event.state "AAAAAA" .doing (some 500)], { claimed := some tA0, now := 500 }) := by
  unfold runSec; rw [replay4]; simp only [secClaimOldest, ready4]; rfl
example : ∃ t, (some tA0 : Option Task) = some t ∧ ∃ g' t', replayRaw (applyWrite lit4 (.append [Event.claim "AAAAAA" "ag-1" (some 500), Event.state "AAAAAA" .doing (some 500)])) = .ok g' ∧
      g'.find? t.id = some t' ∧ t'.st = .doing ∧ t'.claimedBy = env5.agent :=
  C16_claim_reply_true lit4 g4 raw4 inv4 env5 envOK5 (by decide) "" _ _ runSec5

/-- step 7 as a lock section: the id it reports is fresh and visible afterwards -/
example : ∃ w out, runSec lit6 env7 (.create false "EEEEEE" "Ship it" "" { u := { state := some "blocked" } }) = .ok (w, out) ∧
    ∃ id, out.created = some id ∧ g6.has id = false ∧ g6.tombed id = false ∧ id ∈ env7.ids ∧
      ∃ g', replayRaw (applyWrite lit6 w) = .ok g' ∧ g'.has id = true := by
  cases hw : (runCmd lit6 env7 req7).write with
  | none => exact absurd run7.1 (C16_no_write_means_error _ _ _ hw (by intro e h; cases h))
  | some w =>
    obtain ⟨sec, out, hs, hrun, _⟩ := C02_one_section_per_command lit6 env7 req7 w hw
    have hsec : sectionOf env7.agent req7 = .ok (.create false "EEEEEE" "Ship it" "" { u := { state := some "blocked" } }) := by decide
    rw [hsec] at hs; injection hs with hs; subst hs
    exact ⟨w, out, hrun, C16_created_id_fresh_and_visible lit6 g6 raw6 (allInv_of reach6 raw6) env7 envOK7 _ _ _ _ _ w out (by decide) hrun⟩

example : sectionOf "ag-1" (.newTask { piped := true, json := some { title := some "Write the code", body := some "all of it", epic := some "EEEEEE" } }) =
    .ok (.create false "EEEEEE" "Write the code" "all of it" {}) :=
  C17_json_create_verbatim "ag-1" { title := some "Write the code", body := some "all of it", epic := some "EEEEEE" } (by decide) ⟨rfl, rfl, rfl⟩

/-- C20: replaying the result event of step 6 prepends exactly one result to A and drops none -/
def tA1r : Task := { tA1 with updatedAt := 600, results := [⟨"code written", "out/report.txt", "sha-1", "mtime-1", "git-1", 600⟩] }
theorem apply_result : applyEvent g5 (.result "AAAAAA" "code written" "out/report.txt" "sha-1" "mtime-1" "git-1" (some 600)) =
    .ok ⟨[tE, tA1r, tB0], g5.deps, []⟩ := by decide
example : (⟨[tE, tA1r, tB0], g5.deps, []⟩ : Graph).find? tA1.id = none ∨
    ∃ t', (⟨[tE, tA1r, tB0], g5.deps, []⟩ : Graph).find? tA1.id = some t' ∧ ∃ new, t'.results = new ++ tA1.results ∧ new.length ≤ 1 :=
  C20_accumulate g5 _ _ apply_result tA1 (by decide) inv5.ok.wf

section StorageWitness
open Storage

/-! ## C. the storage hypotheses are satisfiable -/

instance : Encodable String :=
  Encodable.ofLeftInjection (fun s : String => s.toList.map Char.toNat) (fun l => some (String.ofList (l.map Char.ofNat)))
    (by intro s; simp [Function.comp_def])
deriving instance Encodable for St
deriving instance Encodable for Event

/-- a unary, prefix-free line code over the bytes 1 and 2 -/
def uEncode (e : Event) : Bytes := List.replicate (Encodable.encode e) 1 ++ [2]

open Classical in
noncomputable def uClassify (p : Bytes) : LineClass :=
  if p = [] then .blank else if h : ∃ e, uEncode e = p then .ev (Classical.choose h) else .bad

theorem unary_prefix (m n : Nat) (t : Bytes) (h : List.replicate m (1 : UInt8) ++ [2] ++ t = List.replicate n 1 ++ [2]) : m = n ∧ t = [] := by
  induction m generalizing n with
  | zero =>
    cases n with
    | zero => simpa using h
    | succ k => simp [List.replicate_succ] at h
  | succ m ih =>
    cases n with
    | zero => simp [List.replicate_succ] at h
    | succ k =>
      simp only [List.replicate_succ, List.cons_append, List.cons.injEq, true_and] at h
      obtain ⟨h1, h2⟩ := ih k h
      exact ⟨by omega, h2⟩

theorem uEncode_inj {a b : Event} (h : uEncode a = uEncode b) : a = b := by
  have := unary_prefix (Encodable.encode a) (Encodable.encode b) [] (by simpa [uEncode] using h)
  exact Encodable.encode_injective this.1

theorem uCodec : Codec uClassify uEncode where
  clean e _ := by
    refine ⟨?_, ?_, ?_⟩ <;> simp [uEncode, NL, CR, List.mem_replicate]
  parses e _ := by
    have hne : uEncode e ≠ [] := by simp [uEncode]
    have hex : ∃ e', uEncode e' = uEncode e := ⟨e, rfl⟩
    simp only [uClassify, hne, if_false, hex, dite_true]
    exact congrArg _ (uEncode_inj (Classical.choose_spec hex))
  prefix_bad e p _ hp hne hnil := by
    have hno : ¬ ∃ e', uEncode e' = p := by
      rintro ⟨e', rfl⟩
      obtain ⟨t, ht⟩ := hp
      have := unary_prefix _ _ t ht
      apply hne
      rw [← ht, this.2, List.append_nil]
    simp [uClassify, hnil, hno]
  empty_blank := by simp [uClassify]

theorem codec_exists : ∃ (classify : Bytes → LineClass) (encode : Event → Bytes), Codec classify encode :=
  ⟨uClassify, uEncode, uCodec⟩

/-- every batch is short for some line-length limit -/
abbrev AnyEvent : Event → Prop := fun _ => True

theorem short_exists (encode : Event → Bytes) (evs : List Event) : ∃ limit, Short AnyEvent encode limit evs := by
  induction evs with
  | nil => exact ⟨0, fun e he => by cases he⟩
  | cons a evs ih =>
    obtain ⟨l, hl⟩ := ih
    refine ⟨max l ((encode a).length + 1), fun e he => ⟨trivial, ?_⟩⟩
    rcases List.mem_cons.1 he with rfl | he
    · omega
    · have := (hl e he).2; omega

/-- two batches: what steps 1–4 and step 5 of the demo history write -/
def batchA : List Event :=
  [.newItem true "EEEEEE" "uuid-e" "" .todo "Release 1.0" "" (some 100),
   .newItem false "AAAAAA" "uuid-a" "EEEEEE" .todo "Write the code" "all of it" (some 200),
   .newItem false "BBBBBB" "uuid-b" "EEEEEE" .todo "Test the code" "" (some 300),
   .link "BBBBBB" "AAAAAA" true]
def batchB : List Event := [.claim "AAAAAA" "ag-1" (some 500), .state "AAAAAA" .doing (some 500)]

noncomputable def demoLimit : Nat := Classical.choose (short_exists uEncode (batchA ++ batchB))
theorem shortAB : Short AnyEvent uEncode demoLimit (batchA ++ batchB) := Classical.choose_spec (short_exists uEncode (batchA ++ batchB))
theorem shortA : Short AnyEvent uEncode demoLimit batchA := fun e he => shortAB e (List.mem_append_left _ he)
theorem shortB : Short AnyEvent uEncode demoLimit batchB := fun e he => shortAB e (List.mem_append_right _ he)

/-- the log file after the first batch -/
noncomputable def file1 : Bytes := appendFile uClassify uEncode [] batchA
theorem file1_reads : readEvents uClassify demoLimit file1 = .ok batchA ∧ Closed file1 := by
  unfold file1; exact C03_later_mutation_takes_effect uCodec [] [] batchA readEvents_nil shortA
/-- the second batch, cut short by a kill after 3 bytes -/
noncomputable def file2torn : Bytes := appendTorn uClassify uEncode file1 batchB 3
/-- … and the next command's complete append on top of the torn file -/
noncomputable def file3 : Bytes := appendFile uClassify uEncode file2torn batchB

theorem file_reach : FileReach AnyEvent uClassify uEncode demoLimit [] file3 :=
  .tail (.tail (.tail (.refl _) (.append [] batchA shortA)) (.torn file1 batchB 3 shortB)) (.append file2torn batchB shortB)

/-- C03 with all hypotheses discharged: the torn-and-appended file is readable -/
example : ∃ es', readEvents uClassify demoLimit file3 = .ok es' :=
  C03_always_readable uCodec [] file3 [] readEvents_nil file_reach
example : ∃ more, readEvents uClassify demoLimit file3 = .ok (batchA ++ more) :=
  C03_acknowledged_kept uCodec file1 file3 batchA file1_reads.1
    (.append batchB (.torn batchB 3 (.refl _) shortB) shortB)
example : ∃ n, n ≤ batchB.length ∧ readEvents uClassify demoLimit file2torn = .ok (batchA ++ batchB.take n) :=
  C03_torn_write uCodec file1 batchA batchB 3 file1_reads.1 shortB
example : readEvents uClassify demoLimit (repairTail uClassify file1) = .ok batchA ∧ Closed (repairTail uClassify file1) :=
  C03_repair_invisible file1 batchA file1_reads.1
/-- C04 on the same file -/
example : readEvents uClassify demoLimit (appendFile uClassify uEncode file1 batchB) = .ok batchA ∨
    readEvents uClassify demoLimit (appendFile uClassify uEncode file1 batchB) = .ok (batchA ++ batchB) :=
  C04_append_all_or_nothing uCodec file1 _ batchA batchB file1_reads.1 shortB .after
/-- C13 (byte level) -/
example : ∃ n, n ≤ batchB.length ∧ readEvents uClassify demoLimit file2torn = .ok (batchA ++ batchB.take n) :=
  C13_torn_tail_is_dropped uCodec file1 batchA batchB 3 file1_reads.1 shortB

theorem file1_nl : file1.isEmpty ∨ endsWithNL file1 = true := by
  rcases file1_reads.2 with h | h
  · exact Or.inl (by simp [h])
  · exact Or.inr h

/-- a reader that reads the old content with its first `read(2)` and one more byte of the batch being appended with its second
    (stated for any file so that the kernel never has to look inside the concrete one) -/
theorem chunked_two_reads {W : Event → Prop} {classify : Bytes → LineClass} {encode : Event → Bytes} {limit : Nat} (hc : CodecOn W classify encode)
    (f : Bytes) (es evs : List Event) (hr : readEvents classify limit f = .ok es) (hs : Short W encode limit evs)
    (hnl : f.isEmpty ∨ endsWithNL f = true) :
    ∃ n, n ≤ evs.length ∧
      readEvents classify limit (chunkedRead [(f, f.length), (appendFile classify encode f evs, 1)] []) = .ok (es ++ evs.take n) := by
  have hpre : f <+: appendFile classify encode f evs := by
    rw [appendFile, repairTail_closed classify hnl]; exact List.prefix_append _ _
  refine C13_chunked_reader_of_append hc f es evs hr hs hnl _ (by simp) ?_ ?_ ?_
  · intro v hv
    simp only [List.mem_cons, List.not_mem_nil, or_false] at hv
    rcases hv with rfl | rfl
    · exact ⟨List.prefix_refl _, hpre⟩
    · exact ⟨hpre, List.prefix_refl _⟩
  · exact ⟨hpre, trivial⟩
  · simp [chunkedRead, readAt]

example : ∃ n, n ≤ batchB.length ∧
    readEvents uClassify demoLimit
      (chunkedRead [(file1, file1.length), (appendFile uClassify uEncode file1 batchB, 1)] []) = .ok (batchA ++ batchB.take n) :=
  chunked_two_reads uCodec file1 batchA batchB file1_reads.1 shortB file1_nl

/-- C12 (byte level): an append extends what is read -/
example : readEvents uClassify demoLimit (appendFile uClassify uEncode file1 batchB) = .ok (batchA ++ batchB) :=
  C12_append_extends uCodec file1 batchA batchB file1_reads.1 shortB

/-- C05 / C11: a torn fragment (here the single byte 1, a proper prefix of an encoded line) after a closed file is invisible -/
theorem frag_bad : uClassify (dropCR [1]) = .bad := by
  have h1 : dropCR [1] = [1] := by decide
  have hno : ¬ ∃ e, uEncode e = [1] := by
    rintro ⟨e, he⟩
    unfold uEncode at he
    generalize Encodable.encode e = n at he
    cases n with
    | zero => simp at he
    | succ k => simp [List.replicate_succ] at he
  rw [h1]; simp [uClassify, hno]
theorem limit_gt_one {limit : Nat} {evs : List Event} (e : Event) (he : e ∈ evs) (hs : Short AnyEvent uEncode limit evs) : 1 < limit := by
  have := (hs e he).2
  simp only [uEncode, List.length_append, List.length_replicate, List.length_singleton] at this
  omega
theorem demoLimit_gt : 1 < demoLimit := limit_gt_one _ (List.mem_cons_self) shortB
example : readEvents uClassify demoLimit (file1 ++ [1]) = readEvents uClassify demoLimit file1 :=
  C05_torn_tail_irrelevant file1 [1] file1_reads.2 (by decide) (by simp) frag_bad (by simpa using demoLimit_gt)
example : readEvents uClassify demoLimit (file1 ++ [1]) = readEvents uClassify demoLimit file1 :=
  C11_torn_tail_dropped file1 [1] file1_reads.2 (by decide) (by simp) frag_bad (by simpa using demoLimit_gt)

end StorageWitness

section ProcWitness
open Proc

/-! ## D. the process model is inhabited -/

/-! ### D1. on the demo store: ag-2 finishes B while ag-3 tries to claim; one reader -/
def envD1 : Env := { agent := "ag-2", times := [1200] }
def secD1 : Sec := .update "BBBBBB" { u := { state := some "done" } }
def envD2 : Env := { agent := "ag-3", times := [1300] }
def secD2 : Sec := .claimOldest ""
def d1 : List Event → Except CmdErr Write := secDecide envD1 secD1
def d2 : List Event → Except CmdErr Write := secDecide envD2 secD2
def wD1 : Write := .append [.state "BBBBBB" .done (some 1200)]
theorem d1_decides : d1 lit11 = .ok wD1 := by decide

def p0 : Sys := Sys.init lit11 [d1, d2] 1
/-- writer 0 takes the lock -/
def p1 : Sys := { setPhase p0 0 .locked with holder := some 0 }
/-- writer 1 finds it busy -/
def p2 : Sys := setPhase p1 1 (.finished .busy)
/-- the reader opens the log -/
def p3 : Sys := setReader p2 0 (.opened 0)
/-- writer 0 reads, writes, unlocks -/
def p4 : Sys := setPhase p3 0 (.read lit11)
def p5 : Sys := { setPhase (writeLog p4 wD1) 0 (.wrote lit11 wD1) with commits := p4.commits ++ [(0, lit11, wD1)] }
def p6 : Sys := { setPhase p5 0 (.finished (.ok lit11 wD1)) with holder := none }
/-- the reader reads -/
def p7 : Sys := setReader p6 0 (.done (lit11 ++ [.state "BBBBBB" .done (some 1200)]))

/-- the final state, written out -/
def pDone : Sys :=
  { inodes := [lit11 ++ [.state "BBBBBB" .done (some 1200)]], cur := 0, holder := none,
    writers := [⟨d1, .finished (.ok lit11 wD1)⟩, ⟨d2, .finished .busy⟩],
    readers := [.done (lit11 ++ [.state "BBBBBB" .done (some 1200)])],
    commits := [(0, lit11, wD1)],
    history := [lit11, lit11 ++ [.state "BBBBBB" .done (some 1200)]] }
theorem p7_eq : p7 = pDone := rfl

theorem step01 : Step p0 p1 := Step.lockOk p0 0 ⟨d1, .start⟩ rfl rfl rfl
theorem step12 : Step p1 p2 := Step.lockBusy p1 1 ⟨d2, .start⟩ 0 rfl rfl rfl
theorem step23 : Step p2 p3 := Step.rOpen p2 0 rfl
theorem step34 : Step p3 p4 := Step.read p3 0 ⟨d1, .locked⟩ rfl rfl
theorem step45 : Step p4 p5 := Step.write p4 0 ⟨d1, .read lit11⟩ lit11 wD1 rfl rfl d1_decides
theorem step56 : Step p5 p6 := Step.unlockOk p5 0 ⟨d1, .wrote lit11 wD1⟩ lit11 wD1 rfl rfl
theorem step67 : Step p6 p7 := Step.rRead p6 0 0 rfl

theorem demo_proc' : Reachable (Sys.init lit11 [d1, d2] 1) pDone :=
  p7_eq ▸ (((((((Reachable.refl p0).tail step01).tail step12).tail step23).tail step34).tail step45).tail step56).tail step67

theorem demo_proc : Reachable (Sys.init demoLog [d1, d2] 1) pDone := demoLog_eq ▸ demo_proc'

/-- C13: the reader saw the store after one whole section -/
example : ∃ k, k ≤ pDone.commits.length ∧ lit11 ++ [Event.state "BBBBBB" .done (some 1200)] = logAfter demoLog pDone.commits k :=
  C13_reader_sees_a_past_state demo_proc 0 _ rfl
example : pDone.history.length = pDone.commits.length + 1 ∧
    ∀ k, k ≤ pDone.commits.length → pDone.history[k]? = some (logAfter demoLog pDone.commits k) :=
  C13_history_is_the_sequence_of_logs demo_proc
/-- C01: the process that found the lock busy had no effect; the lock holder is the one in its section -/
example : ∀ c ∈ pDone.commits, c.1 ≠ 1 := C01_busy_no_effect demo_proc 1 ⟨d2, .finished .busy⟩ rfl rfl
example : p4.holder = some 0 ↔ ((Phase.read lit11 = .locked) ∨ (∃ snap, Phase.read lit11 = .read snap) ∨
    (∃ snap wr, Phase.read lit11 = .wrote snap wr) ∨ (∃ snap e, Phase.read lit11 = .erred snap e)) :=
  C01_mutual_exclusion (((((Reachable.refl p0).tail step01).tail step12).tail step23).tail step34) 0 ⟨d1, .read lit11⟩ rfl
/-- C02 -/
example : pDone.log = logAfter demoLog pDone.commits pDone.commits.length := C02_log_is_serial_fold demo_proc
example : lit11 = logAfter demoLog pDone.commits 0 ∧ ∃ d, [d1, d2][0]? = some d ∧ d lit11 = .ok wD1 :=
  C02_each_commit_decided_on_predecessors demo_proc 0 0 lit11 wD1 rfl
example : (0, lit11, wD1) ∈ pDone.commits ∧
    ∀ (i j : Nat) (c c' : List Event × Write), pDone.commits[i]? = some (0, c) → pDone.commits[j]? = some (0, c') → i = j :=
  C02_acknowledged_exactly_once demo_proc 0 ⟨d1, .finished (.ok lit11 wD1)⟩ lit11 wD1 rfl rfl
example : ∀ c ∈ pDone.commits, c.1 ≠ 1 :=
  C02_failed_contributes_nothing demo_proc 1 ⟨d2, .finished .busy⟩ rfl (Or.inl rfl)

/-! the hypotheses of the "serializable ⇒ invariants" theorems (C02, C07, C13) are jointly satisfiable -/
def envsD : List (Env × Sec) := [(envD1, secD1), (envD2, secD2)]
theorem demo_proc_envs : Reachable (Sys.init demoLog (envsD.map fun (es : Env × Sec) => secDecide es.1 es.2) 1) pDone := demo_proc
theorem envsD_ok : ∀ es ∈ envsD, SecOK es.1 es.2 := by
  intro es hes
  simp only [envsD, List.mem_cons, List.not_mem_nil, or_false] at hes
  rcases hes with rfl | rfl
  · trivial
  · show envD2.agent ≠ ""; decide
theorem envOKD1 : EnvOK g11 envD1 := ⟨by decide, by decide, by decide, by decide⟩
theorem envsD_clock : ∀ (i p : Nat) (snap : List Event) (w : Write) (g : Graph), pDone.commits[i]? = some (p, snap, w) → replayRaw snap = .ok g →
    ∀ es : Env × Sec, envsD[p]? = some es → EnvOK g es.1 := by
  intro i p snap w g hc hr es hes
  cases i with
  | succ i => simp [pDone] at hc
  | zero =>
    simp only [pDone, List.getElem?_cons_zero, Option.some.injEq, Prod.mk.injEq] at hc
    obtain ⟨rfl, rfl, rfl⟩ := hc
    simp only [envsD, List.getElem?_cons_zero, Option.some.injEq] at hes
    subst hes
    rw [raw11] at hr; injection hr with hr; subst hr
    exact envOKD1

example : ∃ g, replayRaw pDone.log = .ok g ∧ AllInv g :=
  C02_serializable_invariants demoLog envsD 1 pDone demo_proc_envs demo_secReach envsD_ok envsD_clock
example : ∃ g, replayRaw pDone.log = .ok g ∧ Inv07 g :=
  C07_inv_concurrent demoLog envsD 1 pDone demo_proc_envs demo_secReach envsD_ok envsD_clock
example : ∃ g, replay (lit11 ++ [Event.state "BBBBBB" .done (some 1200)]) = .ok g ∧ AllInv g :=
  C13_reader_state_is_valid demoLog envsD 1 pDone demo_proc_envs demo_secReach envsD_ok envsD_clock 0 _ rfl

/-! ### D2. two `claim`s racing for the one ready task (B, on the store after `prune`): contention -/
def c1 : List Event → Except CmdErr Write := claimDecide "ag-2" "" 1000
def c2 : List Event → Except CmdErr Write := claimDecide "ag-3" "" 1001
def wC1 : Write := .append [.claim "BBBBBB" "ag-2" (some 1000), .state "BBBBBB" .doing (some 1000)]
theorem c1_decides : c1 lit9 = .ok wC1 := by decide +kernel
theorem c2_decides_after : c2 lit10 = .error .noReady := by decide +kernel

def q0 : Sys := Sys.init lit9 [c1, c2] 0
def q1 : Sys := { setPhase q0 0 .locked with holder := some 0 }
def q2 : Sys := setPhase q1 1 (.finished .busy)
def q3 : Sys := setPhase q2 0 (.read lit9)
def q4 : Sys := { setPhase (writeLog q3 wC1) 0 (.wrote lit9 wC1) with commits := q3.commits ++ [(0, lit9, wC1)] }
def q5 : Sys := { setPhase q4 0 (.finished (.ok lit9 wC1)) with holder := none }
def qDone : Sys :=
  { inodes := [lit10], cur := 0, holder := none,
    writers := [⟨c1, .finished (.ok lit9 wC1)⟩, ⟨c2, .finished .busy⟩], readers := [],
    commits := [(0, lit9, wC1)], history := [lit9, lit10] }
theorem q5_eq : q5 = qDone := rfl
theorem race_contended : Reachable (Sys.init lit9 [c1, c2] 0) qDone :=
  q5_eq ▸ (((((Reachable.refl q0).tail (Step.lockOk q0 0 ⟨c1, .start⟩ rfl rfl rfl)).tail
    (Step.lockBusy q1 1 ⟨c2, .start⟩ 0 rfl rfl rfl)).tail (Step.read q2 0 ⟨c1, .locked⟩ rfl rfl)).tail
    (Step.write q3 0 ⟨c1, .read lit9⟩ lit9 wC1 rfl rfl c1_decides)).tail
    (Step.unlockOk q4 0 ⟨c1, .wrote lit9 wC1⟩ lit9 wC1 rfl rfl)

/-- C01: the winner was handed the head of the ready list of the log at lock time and wrote claim + doing for it -/
example : lit9 = logAfter lit9 qDone.commits 0 ∧
    ∃ g t rest, replay lit9 = .ok g ∧ readyTasks g "" = t :: rest ∧
      (∀ u ∈ readyTasks g "", claimLe t u = true) ∧ t.isEpic = false ∧ isReady g t = true ∧
      wC1 = .append [Event.claim t.id "ag-2" (some 1000), Event.state t.id .doing (some 1000)] :=
  C01_claim_outcome race_contended 0 0 lit9 wC1 "ag-2" "" 1000 rfl rfl
example : ∀ c ∈ qDone.commits, c.1 ≠ 1 := C01_busy_no_effect race_contended 1 ⟨c2, .finished .busy⟩ rfl rfl

/-! ### D3. the same two `claim`s one after the other: the second is told that nothing is ready -/
def t1 : Sys := { setPhase q0 0 .locked with holder := some 0 }
def t2 : Sys := setPhase t1 0 (.read lit9)
def t3 : Sys := { setPhase (writeLog t2 wC1) 0 (.wrote lit9 wC1) with commits := t2.commits ++ [(0, lit9, wC1)] }
def t4 : Sys := { setPhase t3 0 (.finished (.ok lit9 wC1)) with holder := none }
def t5 : Sys := { setPhase t4 1 .locked with holder := some 1 }
def t6 : Sys := setPhase t5 1 (.read lit10)
def t7 : Sys := setPhase t6 1 (.erred lit10 .noReady)
def t8 : Sys := { setPhase t7 1 (.finished (.failed lit10 .noReady)) with holder := none }
def tDone : Sys :=
  { inodes := [lit10], cur := 0, holder := none,
    writers := [⟨c1, .finished (.ok lit9 wC1)⟩, ⟨c2, .finished (.failed lit10 .noReady)⟩], readers := [],
    commits := [(0, lit9, wC1)], history := [lit9, lit10] }
theorem t8_eq : t8 = tDone := rfl
theorem race_sequential : Reachable (Sys.init lit9 [c1, c2] 0) tDone :=
  t8_eq ▸ ((((((((Reachable.refl q0).tail (Step.lockOk q0 0 ⟨c1, .start⟩ rfl rfl rfl)).tail
    (Step.read t1 0 ⟨c1, .locked⟩ rfl rfl)).tail
    (Step.write t2 0 ⟨c1, .read lit9⟩ lit9 wC1 rfl rfl c1_decides)).tail
    (Step.unlockOk t3 0 ⟨c1, .wrote lit9 wC1⟩ lit9 wC1 rfl rfl)).tail
    (Step.lockOk t4 1 ⟨c2, .start⟩ rfl rfl rfl)).tail
    (Step.read t5 1 ⟨c2, .locked⟩ rfl rfl)).tail
    (Step.decideErr t6 1 ⟨c2, .read lit10⟩ lit10 .noReady rfl rfl c2_decides_after)).tail
    (Step.unlockErr t7 1 ⟨c2, .erred lit10 .noReady⟩ lit10 .noReady rfl rfl)

/-- C01: "nothing is ready" was answered on a snapshot in which indeed nothing is ready (B is already claimed) -/
example : ∃ g, replay lit10 = .ok g ∧ ∀ t ∈ g.tasks, ¬ (t.isEpic = false ∧ isReady g t = true ∧ (("" : String) = "" ∨ t.epicId = "")) :=
  C01_no_ready_means_empty race_sequential 1 ⟨c2, .finished (.failed lit10 .noReady)⟩ lit10 "ag-3" "" 1001 rfl rfl rfl
/-- C01: the later section decided on a log that already contains the winner's claim -/
example : ∀ (j q : Nat) (snapQ : List Event) (wQ : Write), 0 < j → tDone.commits[j]? = some (q, snapQ, wQ) →
    snapQ = (tDone.commits.take j |>.drop 1).foldl (fun l c => applyWrite l c.2.2) (applyWrite lit9 wC1) :=
  fun j q snapQ wQ hj hQ => C01_no_double race_sequential 0 j 0 q lit9 snapQ wC1 wQ hj rfl hQ
example : ∀ c ∈ tDone.commits, c.1 ≠ 1 :=
  C02_failed_contributes_nothing race_sequential 1 ⟨c2, .finished (.failed lit10 .noReady)⟩ rfl (Or.inr ⟨_, _, rfl⟩)

/-! ### D4. two `claim`s, two ready tasks (store after step 3: A and B, no edge yet): both win, different tasks; a reader in between -/
def e1 : List Event → Except CmdErr Write := claimDecide "ag-1" "" 500
def e2 : List Event → Except CmdErr Write := claimDecide "ag-2" "" 501
def wE1 : Write := .append [.claim "AAAAAA" "ag-1" (some 500), .state "AAAAAA" .doing (some 500)]
def wE2 : Write := .append [.claim "BBBBBB" "ag-2" (some 501), .state "BBBBBB" .doing (some 501)]
def m4 : List Event := lit3 ++ [.claim "AAAAAA" "ag-1" (some 500), .state "AAAAAA" .doing (some 500)]
def m5 : List Event := m4 ++ [.claim "BBBBBB" "ag-2" (some 501), .state "BBBBBB" .doing (some 501)]

theorem replay3 : replay lit3 = .ok g3 := by decide
/-- with two ready tasks the ready list is really sorted: A (created at 200) before B (300) -/
theorem ready3 : readyTasks g3 "" = [tA0, tB0] := by
  have hf : (g3.tasks.filter fun t => (("" : Id) == "" || t.epicId == "") && isReady g3 t && !t.isEpic) = [tA0, tB0] := by decide
  have h1 : claimLe tA0 tB0 = true := by decide
  rw [readyTasks, hf]; simp [List.mergeSort, List.MergeSort.Internal.splitInTwo, h1]
theorem e1_decides : e1 lit3 = .ok wE1 := by
  unfold e1 claimDecide
  rw [replay3]; simp only [secClaimOldest, ready3]; rfl
theorem e2_decides : e2 m4 = .ok wE2 := by decide +kernel

def u0 : Sys := Sys.init lit3 [e1, e2] 1
def u1 : Sys := { setPhase u0 0 .locked with holder := some 0 }
def u2 : Sys := setPhase u1 0 (.read lit3)
def u3 : Sys := setReader u2 0 (.opened 0)
def u4 : Sys := { setPhase (writeLog u3 wE1) 0 (.wrote lit3 wE1) with commits := u3.commits ++ [(0, lit3, wE1)] }
def u5 : Sys := { setPhase u4 0 (.finished (.ok lit3 wE1)) with holder := none }
def u6 : Sys := setReader u5 0 (.done m4)
def u7 : Sys := { setPhase u6 1 .locked with holder := some 1 }
def u8 : Sys := setPhase u7 1 (.read m4)
def u9 : Sys := { setPhase (writeLog u8 wE2) 1 (.wrote m4 wE2) with commits := u8.commits ++ [(1, m4, wE2)] }
def u10 : Sys := { setPhase u9 1 (.finished (.ok m4 wE2)) with holder := none }
def uDone : Sys :=
  { inodes := [m5], cur := 0, holder := none,
    writers := [⟨e1, .finished (.ok lit3 wE1)⟩, ⟨e2, .finished (.ok m4 wE2)⟩], readers := [.done m4],
    commits := [(0, lit3, wE1), (1, m4, wE2)], history := [lit3, m4, m5] }
theorem u10_eq : u10 = uDone := rfl
theorem two_winners : Reachable (Sys.init lit3 [e1, e2] 1) uDone :=
  u10_eq ▸ ((((((((((Reachable.refl u0).tail (Step.lockOk u0 0 ⟨e1, .start⟩ rfl rfl rfl)).tail
    (Step.read u1 0 ⟨e1, .locked⟩ rfl rfl)).tail
    (Step.rOpen u2 0 rfl)).tail
    (Step.write u3 0 ⟨e1, .read lit3⟩ lit3 wE1 rfl rfl e1_decides)).tail
    (Step.unlockOk u4 0 ⟨e1, .wrote lit3 wE1⟩ lit3 wE1 rfl rfl)).tail
    (Step.rRead u5 0 0 rfl)).tail
    (Step.lockOk u6 1 ⟨e2, .start⟩ rfl rfl rfl)).tail
    (Step.read u7 1 ⟨e2, .locked⟩ rfl rfl)).tail
    (Step.write u8 1 ⟨e2, .read m4⟩ m4 wE2 rfl rfl e2_decides)).tail
    (Step.unlockOk u9 1 ⟨e2, .wrote m4 wE2⟩ m4 wE2 rfl rfl)

/-- C01: the second winner decided on a log that already holds the first winner's claim — and so got the *other* task -/
example : m4 = ((uDone.commits.take 1).drop (0 + 1)).foldl (fun l c => applyWrite l c.2.2) (applyWrite lit3 wE1) :=
  C01_no_double two_winners 0 1 0 1 lit3 m4 wE1 wE2 (by decide) rfl rfl
example : m4 = logAfter lit3 uDone.commits 1 ∧
    ∃ g t rest, replay m4 = .ok g ∧ readyTasks g "" = t :: rest ∧
      (∀ u ∈ readyTasks g "", claimLe t u = true) ∧ t.isEpic = false ∧ isReady g t = true ∧
      wE2 = .append [Event.claim t.id "ag-2" (some 501), Event.state t.id .doing (some 501)] :=
  C01_claim_outcome two_winners 1 1 m4 wE2 "ag-2" "" 501 rfl rfl
/-- C13: the reader, which opened the log before the first write and read it after, saw the state after exactly one section -/
example : ∃ k, k ≤ uDone.commits.length ∧ m4 = logAfter lit3 uDone.commits k := C13_reader_sees_a_past_state two_winners 0 m4 rfl
example : uDone.log = logAfter lit3 uDone.commits uDone.commits.length := C02_log_is_serial_fold two_winners

end ProcWitness

/-! ### the concrete JSON line codec: hypotheses of the `…_json` theorems are met by the demo batches -/
namespace JsonWitness
open Storage Codec

def ets : Event → String := fun _ => "2026-01-02T03:04:05Z"

theorem batchA_wf : AllWf batchA := by
  intro e he
  simp only [batchA, List.mem_cons, List.not_mem_nil, or_false] at he
  rcases he with rfl | rfl | rfl | rfl <;> simp +decide [Wf, TimeOk, StOk]
theorem batchB_wf : AllWf batchB := by
  intro e he
  simp only [batchB, List.mem_cons, List.not_mem_nil, or_false] at he
  rcases he with rfl | rfl <;> simp +decide [Wf, TimeOk, StOk]

/-- some line-length limit admits both batches -/
theorem json_short_exists : ∃ limit, Short Wf (encodeEvent ets) limit (batchA ++ batchB) := by
  obtain ⟨l, hl⟩ := short_exists (encodeEvent ets) (batchA ++ batchB)
  exact ⟨l, fun e he => ⟨allWf_append batchA_wf batchB_wf e he, (hl e he).2⟩⟩
noncomputable def jLimit : Nat := Classical.choose json_short_exists
theorem jShortAB : Short Wf (encodeEvent ets) jLimit (batchA ++ batchB) := Classical.choose_spec json_short_exists
theorem jShortA : Short Wf (encodeEvent ets) jLimit batchA := fun e he => jShortAB e (List.mem_append_left _ he)
theorem jShortB : Short Wf (encodeEvent ets) jLimit batchB := fun e he => jShortAB e (List.mem_append_right _ he)

noncomputable def jfile1 : Bytes := appendFile classifyLine (encodeEvent ets) [] batchA
theorem jfile1_reads : readEvents classifyLine jLimit jfile1 = .ok batchA := by
  have := C12_append_extends_json ets (limit := jLimit) [] [] batchA readEvents_nil jShortA
  simpa [jfile1] using this

/-- C03 / C13: the second batch cut after 40 bytes, in the real line format -/
example : ∃ n, n ≤ batchB.length ∧
    readEvents classifyLine jLimit (appendTorn classifyLine (encodeEvent ets) jfile1 batchB 40) = .ok (batchA ++ batchB.take n) :=
  C03_torn_write_json ets jfile1 batchA batchB 40 jfile1_reads jShortB
example : ∃ n, n ≤ batchB.length ∧
    readEvents classifyLine jLimit (appendTorn classifyLine (encodeEvent ets) jfile1 batchB 40) = .ok (batchA ++ batchB.take n) :=
  C13_torn_tail_is_dropped_json ets jfile1 batchA batchB 40 jfile1_reads jShortB
/-- C04 -/
example : readEvents classifyLine jLimit (appendFile classifyLine (encodeEvent ets) jfile1 batchB) = .ok batchA ∨
    readEvents classifyLine jLimit (appendFile classifyLine (encodeEvent ets) jfile1 batchB) = .ok (batchA ++ batchB) :=
  C04_append_all_or_nothing_json ets jfile1 _ batchA batchB jfile1_reads jShortB .after
/-- C03: any alternation -/
example : ∃ es', readEvents classifyLine jLimit (appendFile classifyLine (encodeEvent ets) (appendTorn classifyLine (encodeEvent ets) jfile1 batchB 40) batchB) = .ok es' :=
  C03_always_readable_json ets [] _ [] readEvents_nil
    (.tail (.tail (.tail (.refl _) (.append [] batchA jShortA)) (.torn jfile1 batchB 40 jShortB)) (.append _ batchB jShortB))
/-- C17 / C12: a title with a quote, a newline, an HTML character and an astral character -/
example : classifyLine (encodeEvent ets (.title "AAAAAA" "say \"hi\"\n<b>😀" (some 500))) = .ev (.title "AAAAAA" "say \"hi\"\n<b>😀" (some 500)) :=
  C17_line_roundtrip ets _ (by simp +decide [Wf, TimeOk])
example : Time.parse (Time.format 63926283060120000000) = some 63926283060120000000 := C12_time_stamp_roundtrip _ (by decide)
/-- C03: the demo history's log consists of well-formed events, and stays so after any further command with a sane clock -/
example : AllWf (runCmd (batchA ++ batchB) { agent := "ag-2", times := [600] } (.claimOldest "")).log :=
  C03_commands_write_recoverable_events _ (allWf_append batchA_wf batchB_wf) _ (by intro t ht; simp at ht; subst ht; decide) _

/-- C12: a two-command history as bytes: the file decodes to the log the commands computed -/
def envA : Env := { agent := "ag-1", times := [100, 101, 102], ids := ["AAAAAA", "BBBBBB"], uuids := ["u1", "u2"] }
def reqA : Request := .newTask { bodyStdin := false, piped := true, flags := {}, stdinText := "", json := some { title := some "first", state := some "doing", claim := some "ag-1" } }
theorem envA_T : EnvT envA := by intro t ht; simp [envA] at ht; rcases ht with rfl | rfl | rfl <;> decide
theorem one_step_exists : ∃ limit, FileLog limit (runCmd [] envA reqA).log (fileAfter ets [] (runCmd [] envA reqA).write) := by
  obtain ⟨l, hl⟩ := short_exists (encodeEvent ets) (runCmd [] envA reqA).log
  exact ⟨l, .step envA reqA ets .init envA_T (fun e he => (hl e he).2)⟩
example : ∃ limit, readEvents classifyLine limit (fileAfter ets [] (runCmd [] envA reqA).write) = .ok (runCmd [] envA reqA).log := by
  obtain ⟨l, h⟩ := one_step_exists
  exact ⟨l, (C12_file_decodes_to_the_log h).1⟩
example : (runCmd [] envA reqA).log.length = 3 := by decide
/-- C06 / C07 / C14 on disk: the same one-command history satisfies both environment assumptions at once (`DiskReach`) -/
theorem envA_OK : EnvOK Graph.empty envA := by
  refine ⟨?_, ?_, ?_, ?_⟩
  · intro i hi; simp [envA] at hi; rcases hi with rfl | rfl <;> decide
  · simp [envA]
  · intro n hn; simp [envA] at hn; rcases hn with rfl | rfl | rfl <;> decide
  · intro t ht; simp [Graph.empty] at ht
theorem one_step_on_disk : ∃ limit, DiskReach limit (runCmd [] envA reqA).log (fileAfter ets [] (runCmd [] envA reqA).write) := by
  obtain ⟨l, hl⟩ := short_exists (encodeEvent ets) (runCmd [] envA reqA).log
  exact ⟨l, .step (g := Graph.empty) envA reqA ets .init rfl envA_OK envA_T (fun e he => (hl e he).2)⟩
example : ∃ limit g, readEvents classifyLine limit (fileAfter ets [] (runCmd [] envA reqA).write) = .ok (runCmd [] envA reqA).log ∧
    replay (runCmd [] envA reqA).log = .ok g ∧ Inv06 g := by
  obtain ⟨l, h⟩ := one_step_on_disk
  exact ⟨l, C06_inv_holds_of_the_bytes_on_disk h⟩
example : ∃ limit g, readEvents classifyLine limit (fileAfter ets [] (runCmd [] envA reqA).write) = .ok (runCmd [] envA reqA).log ∧
    replay (runCmd [] envA reqA).log = .ok g ∧ Inv07 g := by
  obtain ⟨l, h⟩ := one_step_on_disk
  exact ⟨l, C07_inv_holds_of_the_bytes_on_disk h⟩
example : ∃ limit g, readEvents classifyLine limit (fileAfter ets [] (runCmd [] envA reqA).write) = .ok (runCmd [] envA reqA).log ∧
    replay (runCmd [] envA reqA).log = .ok g ∧ Inv14 g := by
  obtain ⟨l, h⟩ := one_step_on_disk
  exact ⟨l, C14_inv_holds_of_the_bytes_on_disk h⟩
example : ∃ limit g, readEvents classifyLine limit (fileAfter ets [] (runCmd [] envA reqA).write) = .ok (runCmd [] envA reqA).log ∧
    replay (runCmd [] envA reqA).log = .ok g ∧ WF g := by
  obtain ⟨l, h⟩ := one_step_on_disk
  exact ⟨l, C08_applies_to_the_bytes_on_disk h⟩
example : ∃ limit g, readEvents classifyLine limit (fileAfter ets [] (runCmd [] envA reqA).write) = .ok (runCmd [] envA reqA).log ∧
    replay (runCmd [] envA reqA).log = .ok g ∧ ((Render.rows g .all).map (·.id)).Perm (g.tasks.map (·.id)) := by
  obtain ⟨l, h⟩ := one_step_on_disk
  obtain ⟨g, h1, h2, h3, _⟩ := C19_list_of_the_bytes_on_disk_is_complete h
  exact ⟨l, g, h1, h2, h3⟩

/-! ### the byte-level process system: one of ergo's own commands (`claim`) as a writer on the JSON file of the demo history -/
section BytesRun
open ProcB Proc

def envC : Env := { agent := "ag-9", times := [700] }
def secC : Sec := .claimOldest ""
def wrC : Write := .append [.claim "AAAAAA" "ag-9" (some 700), .state "AAAAAA" .doing (some 700)]
theorem claim_decides : cmdWriter envC secC batchA = .ok wrC := by decide +kernel
theorem envC_T : EnvT envC := by intro t ht; simp [envC] at ht; subst ht; decide

theorem run_limit_exists : ∃ limit, Short Wf (encodeEvent ets) limit (batchA ++ wrC.events) := by
  obtain ⟨l, hl⟩ := short_exists (encodeEvent ets) (batchA ++ wrC.events)
  have hw : AllWf wrC.events := cmdWriter_wf envC envC_T secC batchA wrC batchA_wf claim_decides
  exact ⟨l, fun e he => ⟨allWf_append batchA_wf hw e he, (hl e he).2⟩⟩
noncomputable def rLimit : Nat := Classical.choose run_limit_exists
theorem rShort : Short Wf (encodeEvent ets) rLimit (batchA ++ wrC.events) := Classical.choose_spec run_limit_exists

noncomputable def rfile : Bytes := appendFile classifyLine (encodeEvent ets) [] batchA
theorem rfile_reads : readEvents classifyLine rLimit rfile = .ok batchA := by
  have := C12_append_extends_json ets (limit := rLimit) [] [] batchA readEvents_nil (fun e he => rShort e (List.mem_append_left _ he))
  simpa [rfile] using this

noncomputable def b0 : BSys := BSys.init rfile [cmdWriter envC secC] 1 rLimit ets
theorem b0_inv : ProcB.Inv b0 :=
  inv_init rfile _ 1 rLimit ets batchA rfile_reads batchA_wf (by
    intro d hd snap wr hs hdec
    simp only [List.mem_singleton] at hd; subst hd
    exact cmdWriter_wf envC envC_T secC snap wr hs hdec)

noncomputable def b1 : BSys := { setPhaseB b0 0 .locked with holder := some 0 }
noncomputable def b2 : BSys := setPhaseB b1 0 (.read batchA)
noncomputable def b3 : BSys := { setPhaseB (writeBytes b2 wrC) 0 (.wrote batchA wrC) with commits := b2.commits ++ [(0, batchA, wrC)] }
/-- the same writer killed after 25 bytes of its write instead -/
noncomputable def b3torn : BSys :=
  { setPhaseB { b2 with files := b2.files.set b2.cur (appendTorn classifyLine (encodeEvent b2.ets) b2.file wrC.events 25) } 0 .crashed
    with holder := if b2.holder = some 0 then none else b2.holder }

theorem step01 : BStep b0 b1 := BStep.lockOk b0 0 ⟨cmdWriter envC secC, .start⟩ rfl rfl rfl
theorem step12 : BStep b1 b2 := BStep.read b1 0 ⟨cmdWriter envC secC, .locked⟩ batchA rfl rfl rfile_reads
theorem fitsC : Fits b2 (wEvents wrC) := fun e he => (rShort e (List.mem_append_right _ he)).2
theorem step23 : BStep b2 b3 := BStep.write b2 0 ⟨cmdWriter envC secC, .read batchA⟩ batchA wrC rfl rfl claim_decides fitsC
theorem step23torn : BStep b2 b3torn := BStep.tornWrite b2 0 ⟨cmdWriter envC secC, .read batchA⟩ batchA wrC.events 25 rfl rfl claim_decides fitsC

theorem not_torn_01 : ¬ Torn b0 b1 := by
  rintro ⟨p, w, snap, evs, k, h1, h2, _, _⟩
  cases p with
  | zero => simp [b0, BSys.init] at h1; subst h1; cases h2
  | succ p => simp [b0, BSys.init] at h1
theorem not_torn_12 : ¬ Torn b1 b2 := by
  rintro ⟨p, w, snap, evs, k, h1, h2, _, _⟩
  cases p with
  | zero => simp [b1, b0, BSys.init, setPhaseB] at h1; subst h1; cases h2
  | succ p => simp [b1, b0, BSys.init, setPhaseB] at h1
theorem not_torn_23 : ¬ Torn b2 b3 := by
  rintro ⟨p, w, snap, evs, k, _, _, _, heq⟩
  have := congrArg (fun s => s.commits) heq
  simp [b3, b2, b1, b0, BSys.init, setPhaseB] at this

theorem reach3 : BReachableNT b0 b3 :=
  .tail (.tail (.tail (.refl _) step01 not_torn_01) step12 not_torn_12) step23 not_torn_23

/-- C02 (bytes): after the claim, the bytes under the log's name decode to the demo batch plus the claim's two events -/
example : readEvents classifyLine rLimit b3.file = .ok (logAfter batchA b3.commits b3.commits.length) :=
  C02_bytes_are_the_serial_fold rfile _ 1 rLimit ets batchA rfile_reads batchA_wf (by
    intro d hd snap wr hs hdec
    simp only [List.mem_singleton] at hd; subst hd
    exact cmdWriter_wf envC envC_T secC snap wr hs hdec) b3 reach3
/-- C03 (bytes): the writer killed after 25 bytes of its write: the store still loads -/
example : ProcB.Inv b3torn :=
  C03_store_loads_under_every_schedule_and_kill (.tail (.tail (.tail (.refl _) step01) step12) step23torn) b0_inv
example : TornResult b2 b3torn :=
  (torn_sim b2 (reach_inv (.tail (.tail (.refl _) step01) step12) b0_inv) 0 ⟨cmdWriter envC secC, .read batchA⟩ batchA wrC.events 25 rfl rfl claim_decides fitsC).2

end BytesRun

/-! ### the invariants of the bytes under concurrency: `new task` as a process of the byte-level system on the empty store -/
section DiskConcRun
open ProcB Proc

def secW : Sec := .create false "" "first" "" {}
def envsW : List (Env × Sec) := [(envA, secW)]
def wrW : Write := .append [.newItem false "AAAAAA" "u1" "" .todo "first" "" (some 100)]
theorem create_decides : secDecide envA secW [] = .ok wrW := by decide +kernel
theorem wlimit_exists : ∃ limit, ∀ e ∈ wEvents wrW, (encodeEvent ets e).length < limit := by
  obtain ⟨l, hl⟩ := short_exists (encodeEvent ets) (wEvents wrW)
  exact ⟨l, fun e he => (hl e he).2⟩
noncomputable def wLimit : Nat := Classical.choose wlimit_exists
noncomputable def c0 : BSys := BSys.init [] (envsW.map fun (es : Env × Sec) => secDecide es.1 es.2) 0 wLimit ets
noncomputable def c1 : BSys := { setPhaseB c0 0 .locked with holder := some 0 }
noncomputable def c2 : BSys := setPhaseB c1 0 (.read [])
noncomputable def c3 : BSys := { setPhaseB (writeBytes c2 wrW) 0 (.wrote [] wrW) with commits := c2.commits ++ [(0, [], wrW)] }
theorem cstep01 : BStep c0 c1 := BStep.lockOk c0 0 ⟨secDecide envA secW, .start⟩ rfl rfl rfl
theorem cstep12 : BStep c1 c2 := BStep.read c1 0 ⟨secDecide envA secW, .locked⟩ [] rfl rfl readEvents_nil
theorem cfits : Fits c2 (wEvents wrW) := Classical.choose_spec wlimit_exists
theorem cstep23 : BStep c2 c3 := BStep.write c2 0 ⟨secDecide envA secW, .read []⟩ [] wrW rfl rfl create_decides cfits
theorem cnot_torn_01 : ¬ Torn c0 c1 := by
  rintro ⟨p, w, snap, evs, k, h1, h2, _, _⟩
  cases p with
  | zero => simp [c0, envsW, BSys.init] at h1; subst h1; cases h2
  | succ p => simp [c0, envsW, BSys.init] at h1
theorem cnot_torn_12 : ¬ Torn c1 c2 := by
  rintro ⟨p, w, snap, evs, k, h1, h2, _, _⟩
  cases p with
  | zero => simp [c1, c0, envsW, BSys.init, setPhaseB] at h1; subst h1; cases h2
  | succ p => simp [c1, c0, envsW, BSys.init, setPhaseB] at h1
theorem cnot_torn_23 : ¬ Torn c2 c3 := by
  rintro ⟨p, w, snap, evs, k, _, _, _, heq⟩
  have := congrArg (fun s => s.commits) heq
  simp [c3, c2, c1, c0, BSys.init, setPhaseB] at this
theorem creach3 : BReachableNT c0 c3 :=
  .tail (.tail (.tail (.refl _) cstep01 cnot_torn_01) cstep12 cnot_torn_12) cstep23 cnot_torn_23

/-- C02 / C07 on the bytes under concurrency: the hypotheses are met by a `new task` run as a process on the empty store -/
example : ∃ L g, readEvents classifyLine wLimit c3.file = .ok L ∧ replayRaw L = .ok g ∧ Inv06 g ∧ Inv07 g ∧ Inv14 g :=
  C02_bytes_under_every_schedule_keep_the_invariants [] [] envsW 0 wLimit ets readEvents_nil allWf_nil .init
    (by intro es hes; simp [envsW] at hes; subst hes; show Text.isBlank "first" = false; decide)
    (by intro es hes; simp [envsW] at hes; subst hes; exact envA_T)
    c3 creach3
    (by
      intro i p snap w g hc hr es hes
      have hcm : c3.commits = [(0, [], wrW)] := by simp [c3, c2, c1, c0, BSys.init, setPhaseB]
      rw [hcm] at hc
      cases i with
      | zero =>
        simp at hc; obtain ⟨rfl, rfl, rfl⟩ := hc
        simp [envsW] at hes; subst hes
        cases hr; exact envA_OK
      | succ i => simp at hc)
theorem c3_clock : ∀ (i p : Nat) (snap : List Event) (w : Write) (g : Graph), c3.commits[i]? = some (p, snap, w) → replayRaw snap = .ok g →
    ∀ es : Env × Sec, envsW[p]? = some es → EnvOK g es.1 := by
  intro i p snap w g hc hr es hes
  have hcm : c3.commits = [(0, [], wrW)] := by simp [c3, c2, c1, c0, BSys.init, setPhaseB]
  rw [hcm] at hc
  cases i with
  | zero =>
    simp at hc; obtain ⟨rfl, rfl, rfl⟩ := hc
    simp [envsW] at hes; subst hes
    cases hr; exact envA_OK
  | succ i => simp at hc
theorem envsW_ok : ∀ es ∈ envsW, SecOK es.1 es.2 := by
  intro es hes; simp [envsW] at hes; subst hes; show Text.isBlank "first" = false; decide
theorem envsW_T : ∀ es ∈ envsW, EnvT es.1 := by intro es hes; simp [envsW] at hes; subst hes; exact envA_T
example : ∃ L g, readEvents classifyLine wLimit c3.file = .ok L ∧ replayRaw L = .ok g ∧ Inv06 g :=
  C06_inv_concurrent_on_disk [] [] envsW 0 wLimit ets readEvents_nil allWf_nil .init envsW_ok envsW_T c3 creach3 c3_clock
example : ∃ L g, readEvents classifyLine wLimit c3.file = .ok L ∧ replayRaw L = .ok g ∧ Inv07 g :=
  C07_inv_concurrent_on_disk [] [] envsW 0 wLimit ets readEvents_nil allWf_nil .init envsW_ok envsW_T c3 creach3 c3_clock
example : ∃ L g, readEvents classifyLine wLimit c3.file = .ok L ∧ replayRaw L = .ok g ∧ Inv14 g :=
  C14_inv_concurrent_on_disk [] [] envsW 0 wLimit ets readEvents_nil allWf_nil .init envsW_ok envsW_T c3 creach3 c3_clock
end DiskConcRun

/-! ### a lock-free reader of the byte-level system: what it decoded satisfies every invariant -/
section DiskReaderRun
open ProcB Proc
noncomputable def r0 : BSys := BSys.init [] (envsW.map fun (es : Env × Sec) => secDecide es.1 es.2) 1 wLimit ets
noncomputable def r1 : BSys := setReaderB r0 0 (.opened r0.cur)
noncomputable def r2 : BSys := setReaderB r1 0 (.done (decode r1.limit (r1.files.getD 0 [])))
theorem rstep01 : BStep r0 r1 := BStep.rOpen r0 0 (by simp [r0, BSys.init])
theorem rstep12 : BStep r1 r2 := BStep.rRead r1 0 0 (by simp [r1, r0, BSys.init, setReaderB])
theorem rnot_torn_01 : ¬ Torn r0 r1 := by
  rintro ⟨p, w, snap, evs, k, h1, h2, _, _⟩
  cases p with
  | zero => simp [r0, envsW, BSys.init] at h1; subst h1; cases h2
  | succ p => simp [r0, envsW, BSys.init] at h1
theorem rnot_torn_12 : ¬ Torn r1 r2 := by
  rintro ⟨p, w, snap, evs, k, h1, h2, _, _⟩
  cases p with
  | zero => simp [r1, r0, envsW, BSys.init, setReaderB] at h1; subst h1; cases h2
  | succ p => simp [r1, r0, envsW, BSys.init, setReaderB] at h1
theorem rreach2 : BReachableNT r0 r2 := .tail (.tail (.refl _) rstep01 rnot_torn_01) rstep12 rnot_torn_12
example : ∃ g, replay (decode r1.limit (r1.files.getD 0 [])) = .ok g ∧ AllInv g :=
  C13_byte_reader_state_is_valid [] [] envsW 1 wLimit ets readEvents_nil allWf_nil .init envsW_ok envsW_T r2 rreach2
    (by intro i p snap w g hc; simp [r2, r1, r0, BSys.init, setReaderB] at hc)
    0 _ (by simp [r2, r1, r0, BSys.init, setReaderB])
end DiskReaderRun

/-! ### `claim` as a process of the byte-level system on the JSON file of the demo batch (C01 on the bytes) -/
section ClaimBytesRun
open ProcB Proc
theorem cd_decides : claimDecide "ag-9" "" 700 batchA = .ok wrC := by decide +kernel
theorem cd_wf : ∀ snap wr, AllWf snap → claimDecide "ag-9" "" 700 snap = .ok wr → AllWf wr.events := by
  intro snap wr hs h
  apply cmdWriter_wf envC envC_T secC snap wr hs
  rw [← h]
  simp only [cmdWriter, claimDecide, runSec, envC, secC]
  have hnow : ({ agent := "ag-9", times := [700] } : Env).now = 700 := rfl
  rw [hnow]
  cases replay snap with
  | error e => rfl
  | ok g =>
    simp only
    cases secClaimOldest g "" "ag-9" 700 with
    | error e => rfl
    | ok x => rfl
noncomputable def k0 : BSys := BSys.init rfile [claimDecide "ag-9" "" 700] 0 rLimit ets
noncomputable def k1 : BSys := { setPhaseB k0 0 .locked with holder := some 0 }
noncomputable def k2 : BSys := setPhaseB k1 0 (.read batchA)
noncomputable def k3 : BSys := { setPhaseB (writeBytes k2 wrC) 0 (.wrote batchA wrC) with commits := k2.commits ++ [(0, batchA, wrC)] }
theorem kstep01 : BStep k0 k1 := BStep.lockOk k0 0 ⟨claimDecide "ag-9" "" 700, .start⟩ rfl rfl rfl
theorem kstep12 : BStep k1 k2 := BStep.read k1 0 ⟨claimDecide "ag-9" "" 700, .locked⟩ batchA rfl rfl rfile_reads
theorem kfits : Fits k2 (wEvents wrC) := fun e he => (rShort e (List.mem_append_right _ he)).2
theorem kstep23 : BStep k2 k3 := BStep.write k2 0 ⟨claimDecide "ag-9" "" 700, .read batchA⟩ batchA wrC rfl rfl cd_decides kfits
theorem knot_torn_01 : ¬ Torn k0 k1 := by
  rintro ⟨p, w, snap, evs, k, h1, h2, _, _⟩
  cases p with
  | zero => simp [k0, BSys.init] at h1; subst h1; cases h2
  | succ p => simp [k0, BSys.init] at h1
theorem knot_torn_12 : ¬ Torn k1 k2 := by
  rintro ⟨p, w, snap, evs, k, h1, h2, _, _⟩
  cases p with
  | zero => simp [k1, k0, BSys.init, setPhaseB] at h1; subst h1; cases h2
  | succ p => simp [k1, k0, BSys.init, setPhaseB] at h1
theorem knot_torn_23 : ¬ Torn k2 k3 := by
  rintro ⟨p, w, snap, evs, k, _, _, _, heq⟩
  have := congrArg (fun s => s.commits) heq
  simp [k3, k2, k1, k0, BSys.init, setPhaseB] at this
theorem kreach3 : BReachableNT k0 k3 :=
  .tail (.tail (.tail (.refl _) kstep01 knot_torn_01) kstep12 knot_torn_12) kstep23 knot_torn_23
/-- C01 on the bytes: `claim` as a process on the JSON file of the demo batch -/
example : batchA = logAfter batchA k3.commits 0 ∧
    ∃ g t rest, replay batchA = .ok g ∧ readyTasks g "" = t :: rest ∧
      (∀ u ∈ readyTasks g "", claimLe t u = true) ∧ t.isEpic = false ∧ isReady g t = true ∧
      wrC = .append [Event.claim t.id "ag-9" (some 700), Event.state t.id .doing (some 700)] :=
  C01_claim_outcome_on_the_bytes rfile [claimDecide "ag-9" "" 700] 0 rLimit ets batchA rfile_reads batchA_wf
    (by intro d hd snap wr hs hdec; simp only [List.mem_singleton] at hd; subst hd; exact cd_wf snap wr hs hdec)
    k3 kreach3 0 0 batchA wrC "ag-9" "" 700 rfl (by simp [k3, k2, k1, k0, BSys.init, setPhaseB])
end ClaimBytesRun

end JsonWitness

/-! ### the lock as a file name: two processes find `.ergo/lock` missing, both create it, one gets in -/
section LockRun
open LockFile

def l0 : LSys := LSys.init none 7 2
def l1 := setPh l0 0 .missing
def l2 := setPh l1 1 .missing
def l3 := setPh l2 0 .creating
def l4 := setPh l3 1 .creating
def l5 := setPh { l4 with name := some 7, fresh := 8 } 0 .ensured        -- 0 creates the file: inode 7
def l6 := setPh l5 1 .ensured                                             -- 1's O_CREAT finds it: same inode
def l7 := setPh l6 0 (.opened 7)
def l8 := setPh l7 1 (.opened 7)
def l9 := setPh { l8 with holder := setHolder l8.holder 7 (some 0) } 0 (.locked 7)
def l10 := setPh l9 1 (.done false)                                       -- lock busy

theorem lreach : LReachable l0 l10 :=
  .tail (.tail (.tail (.tail (.tail (.tail (.tail (.tail (.tail (.tail (.refl _)
    (.open1Miss l0 0 (by decide) rfl)) (.open1Miss l1 1 (by decide) rfl)) (.statMiss l2 0 (by decide) rfl)) (.statMiss l3 1 (by decide) rfl))
    (.create l4 0 (by decide))) (.create l5 1 (by decide))) (.open2Ok l6 0 7 (by decide) rfl)) (.open2Ok l7 1 7 (by decide) rfl))
    (.flockOk l8 0 7 (by decide) rfl)) (.flockBusy l9 1 7 0 (by decide) (by simp [l9, setPh, setHolder]))

example : l10.inside 0 := ⟨7, by decide⟩
/-- C02 (lock file): whoever else is inside in that state is process 0 -/
example (q : Nat) (hq : l10.inside q) : 0 = q :=
  C02_one_process_inside_whatever_the_lock_file none 7 2 l10 lreach ⟨7, by decide⟩ hq
example : l10.name = some 7 := by decide
/-- the programs the two processes ran are accepted by the automaton the traces are checked against -/
example : acquireOK [.openRO false, .stat false, .creat, .openRO true, .flockEx true, .flockUn] = true := by decide
example : acquireOK [.openRO false, .stat false, .creat, .openRO true, .flockEx false] = true := by decide
example : acquireOK [.openRO true, .flockEx true, .flockUn] = true := by decide
example : acquireOK [.openRO true, .flockEx true, .bad, .flockUn] = false := by decide
example : acquireOK [.openRO false, .creat, .openRO true, .flockEx true, .flockUn] = false := by decide

end LockRun

end Witness
end Ergo
