/- ErgoProofs.Audit — imported by the per-run audit file that prints the axioms of every property theorem. -/
import ErgoModel.Exec
