/-
  ErgoProofs.Spec — the specification vocabulary the property theorems are stated in.
  Nothing here is executable model code; these are the *meanings* (documented tables, graph notions,
  invariants, observables) that the model's functions are proved to implement.
-/
import ErgoModel.Exec
namespace Ergo

/-! ### documented state machine (docs/spec.md, help.txt) — written out independently of the code's table -/
def docTransition : St → St → Bool
  | .todo, .doing | .todo, .done | .todo, .blocked | .todo, .canceled => true
  | .doing, .todo | .doing, .done | .doing, .blocked | .doing, .canceled | .doing, .error => true
  | .blocked, .todo | .blocked, .doing | .blocked, .done | .blocked, .canceled => true
  | .done, .todo => true
  | .canceled, .todo => true
  | .error, .todo | .error, .doing | .error, .canceled => true
  | _, _ => false

/-- doing/error must be claimed; todo/done/canceled must not; blocked either way -/
def docClaimOk : St → String → Bool
  | .doing, c | .error, c => c != ""
  | .todo, c | .done, c | .canceled, c => c == ""
  | _, _ => true

/-- C06's per-item invariant -/
def TaskInv (t : Task) : Prop :=
  (t.isEpic = true → t.st = .todo ∧ t.claimedBy = "") ∧
  (t.isEpic = false → t.st.valid = true ∧ docClaimOk t.st t.claimedBy = true)

def Inv06 (g : Graph) : Prop := ∀ t ∈ g.tasks, TaskInv t

/-! ### graph notions -/
/-- a dependency path `a ⇝ b` (reflexive-transitive closure of the edge list) -/
inductive Path (E : List (Id × Id)) : Id → Id → Prop where
  | refl (a : Id) : Path E a a
  | step {a b c : Id} : (a, b) ∈ E → Path E b c → Path E a c

/-- no edge closes a cycle (covers self-edges) -/
def Acyclic (E : List (Id × Id)) : Prop := ∀ a b, (a, b) ∈ E → ¬ Path E b a

/-- live ids are unique and never tombstoned; no edge mentions a tombstoned id -/
structure WF (g : Graph) : Prop where
  nodup : (g.tasks.map (·.id)).Nodup
  live_not_tombed : ∀ t ∈ g.tasks, t.id ∉ g.tombs
  deps_not_tombed : ∀ e ∈ g.deps, e.1 ∉ g.tombs ∧ e.2 ∉ g.tombs
  deps_nodup : g.deps.Nodup

/-- C07's invariant: acyclic, irreflexive, same kind, between live items -/
structure Inv07 (g : Graph) : Prop where
  acyclic : Acyclic g.deps
  live : ∀ e ∈ g.deps, ∃ a ∈ g.tasks, ∃ b ∈ g.tasks, a.id = e.1 ∧ b.id = e.2 ∧ a.isEpic = b.isEpic

/-- C14's invariant -/
def Inv14 (g : Graph) : Prop :=
  ∀ t ∈ g.tasks, (t.isEpic = true → t.epicId = "") ∧
    (t.isEpic = false → t.epicId = "" ∨ ∃ e ∈ g.tasks, e.id = t.epicId ∧ e.isEpic = true)

/-! ### observables: what `list --json --all`, `list --json --epics`, `show --json` expose -/
structure Obs where
  id : Id
  uuid : String
  epicId : Id
  isEpic : Bool
  st : St
  title : String
  body : String
  claimedBy : String
  claimedAt : Time          -- 0 = not shown
  createdAt : Time
  updatedAt : Time
  results : List ResultRec
  deriving DecidableEq, Repr

def obsTask (t : Task) : Obs :=
  { id := t.id, uuid := t.uuid, epicId := t.epicId, isEpic := t.isEpic, st := t.st, title := t.title, body := t.body,
    claimedBy := t.claimedBy, claimedAt := if t.claimedBy == "" then 0 else t.lastClaim,
    createdAt := t.createdAt, updatedAt := t.updatedAt, results := t.results }

/-- same live items with the same observable data, same edges (as sets); tombstones are not observable -/
def ObsEq (g g' : Graph) : Prop :=
  (∀ id, (g.find? id).map obsTask = (g'.find? id).map obsTask) ∧ (∀ e, e ∈ g.deps ↔ e ∈ g'.deps)


/-! ### the manual's meaning of ready / blocked (C08), over a graph with unique ids -/
def closedSt (s : St) : Prop := s = .done ∨ s = .canceled

def ReadySpec (g : Graph) (t : Task) : Prop :=
  t.st = .todo ∧ t.claimedBy = "" ∧
  (∀ d, (t.id, d) ∈ g.deps → ∀ o ∈ g.tasks, o.id = d → closedSt o.st) ∧
  (t.epicId ≠ "" → ∀ e, (t.epicId, e) ∈ g.deps → ∀ ep ∈ g.tasks, ep.id = e → ep.isEpic = true →
      ∀ c ∈ g.tasks, c.epicId = e → closedSt c.st)

def BlockedSpec (g : Graph) (t : Task) : Prop :=
  t.st = .blocked ∨ (t.st = .todo ∧ t.claimedBy = "" ∧ ¬ ReadySpec g t)

/-- `t` (a live item) cannot be ready before `u` is closed: own dependency, or inherited through its epic -/
def WaitsFor (g : Graph) (t u : Task) : Prop :=
  t ∈ g.tasks ∧ u ∈ g.tasks ∧
  ((t.id, u.id) ∈ g.deps ∨
   (t.epicId ≠ "" ∧ ∃ ep ∈ g.tasks, ep.isEpic = true ∧ (t.epicId, ep.id) ∈ g.deps ∧ u.epicId = ep.id))

/-- a non-empty chain of waits -/
inductive WaitChain (g : Graph) : Task → Task → Prop where
  | single {a b : Task} : WaitsFor g a b → WaitChain g a b
  | cons {a b c : Task} : WaitsFor g a b → WaitChain g b c → WaitChain g a c

def WaitsAcyclic (g : Graph) : Prop := ∀ t, ¬ WaitChain g t t

/-! ### what compaction needs of a graph (C05): every graph a CLI history with a monotone clock produces satisfies it -/
def maxTimes (l : List Time) : Time := l.foldl maxTime 0

structure TaskOK (t : Task) : Prop where
  /-- `updated_at` is the latest of creation, the last change of each kind, and the results -/
  updated : t.updatedAt = maxTimes ([t.createdAt, t.lastTitle, t.lastBody, t.lastEpic, t.lastState] ++ t.results.map (·.time))
  /-- a claimant always has a claim time -/
  claimTime : t.claimedBy ≠ "" → t.lastClaim ≠ 0
  /-- epics are never re-parented -/
  epicFixed : t.isEpic = true → t.epicId = t.cEpic
  /-- the recorded creation values are the real ones -/
  cStSet : t.cSt ≠ .other ""
  /-- replay has already given every item a non-blank title -/
  titled : Text.isBlank t.title = false
  /-- a field that never had an update event still has its creation value -/
  titleKept : t.lastTitle = 0 → t.title = (if t.cTitle != "" then t.cTitle else t.title)
  created_pos : t.createdAt ≠ 0

structure GraphOK (g : Graph) : Prop where
  wf : WF g
  tasks : ∀ t ∈ g.tasks, TaskOK t

/-! ### reachability through the CLI -/
/-- logs produced from the empty store by any sequence of (modelled) commands, any environment -/
inductive Reach : List Event → Prop where
  | init : Reach []
  | step {log : List Event} (env : Env) (req : Request) : Reach log → Reach (runCmd log env req).log

end Ergo
