/-
  ErgoProofs.Spec — the specification vocabulary the property theorems are stated in.
  Nothing here is executable model code; these are the *meanings* (documented tables, graph notions,
  invariants, observables) that the model's functions are proved to implement.
-/
import ErgoModel.Exec
namespace Ergo

/-! ### documented state machine (docs/spec.md, help.txt) — written out independently of the code's table -/
def docTransition : St → St → Bool
  | .todo, .doing | .todo, .done | .todo, .blocked | .todo, .canceled => true
  | .doing, .todo | .doing, .done | .doing, .blocked | .doing, .canceled | .doing, .error => true
  | .blocked, .todo | .blocked, .doing | .blocked, .done | .blocked, .canceled => true
  | .done, .todo => true
  | .canceled, .todo => true
  | .error, .todo | .error, .doing | .error, .canceled => true
  | _, _ => false

/-- doing/error must be claimed; todo/done/canceled must not; blocked either way -/
def docClaimOk : St → String → Bool
  | .doing, c | .error, c => c != ""
  | .todo, c | .done, c | .canceled, c => c == ""
  | _, _ => true

/-- C06's per-item invariant -/
def TaskInv (t : Task) : Prop :=
  (t.isEpic = true → t.st = .todo ∧ t.claimedBy = "") ∧
  (t.isEpic = false → t.st.valid = true ∧ docClaimOk t.st t.claimedBy = true)

def Inv06 (g : Graph) : Prop := ∀ t ∈ g.tasks, TaskInv t

/-! ### graph notions -/
/-- a dependency path `a ⇝ b` (reflexive-transitive closure of the edge list) -/
inductive Path (E : List (Id × Id)) : Id → Id → Prop where
  | refl (a : Id) : Path E a a
  | step {a b c : Id} : (a, b) ∈ E → Path E b c → Path E a c

/-- no edge closes a cycle (covers self-edges) -/
def Acyclic (E : List (Id × Id)) : Prop := ∀ a b, (a, b) ∈ E → ¬ Path E b a

/-- live ids are unique and never tombstoned; no edge mentions a tombstoned id -/
structure WF (g : Graph) : Prop where
  nodup : (g.tasks.map (·.id)).Nodup
  live_not_tombed : ∀ t ∈ g.tasks, t.id ∉ g.tombs
  deps_not_tombed : ∀ e ∈ g.deps, e.1 ∉ g.tombs ∧ e.2 ∉ g.tombs
  deps_nodup : g.deps.Nodup

/-- C07's invariant: acyclic, irreflexive, same kind, between live items -/
structure Inv07 (g : Graph) : Prop where
  acyclic : Acyclic g.deps
  live : ∀ e ∈ g.deps, ∃ a ∈ g.tasks, ∃ b ∈ g.tasks, a.id = e.1 ∧ b.id = e.2 ∧ a.isEpic = b.isEpic

/-- C14's invariant -/
def Inv14 (g : Graph) : Prop :=
  ∀ t ∈ g.tasks, (t.isEpic = true → t.epicId = "") ∧
    (t.isEpic = false → t.epicId = "" ∨ ∃ e ∈ g.tasks, e.id = t.epicId ∧ e.isEpic = true)

/-! ### observables: what `list --json --all`, `list --json --epics`, `show --json` expose -/
structure Obs where
  id : Id
  uuid : String
  epicId : Id
  isEpic : Bool
  st : St
  title : String
  body : String
  claimedBy : String
  claimedAt : Time          -- 0 = not shown
  createdAt : Time
  updatedAt : Time
  results : List ResultRec
  deriving DecidableEq, Repr

def obsTask (t : Task) : Obs :=
  { id := t.id, uuid := t.uuid, epicId := t.epicId, isEpic := t.isEpic, st := t.st, title := t.title, body := t.body,
    claimedBy := t.claimedBy, claimedAt := if t.claimedBy == "" then 0 else t.lastClaim,
    createdAt := t.createdAt, updatedAt := t.updatedAt, results := t.results }

/-- same live items with the same observable data, same edges (as sets); tombstones are not observable -/
def ObsEq (g g' : Graph) : Prop :=
  (∀ id, (g.find? id).map obsTask = (g'.find? id).map obsTask) ∧ (∀ e, e ∈ g.deps ↔ e ∈ g'.deps)

/-! ### reachability through the CLI -/
/-- logs produced from the empty store by any sequence of (modelled) commands, any environment -/
inductive Reach : List Event → Prop where
  | init : Reach []
  | step {log : List Event} (env : Env) (req : Request) : Reach log → Reach (runCmd log env req).log

end Ergo
