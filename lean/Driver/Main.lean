/-
  Driver.Main — one JSON object per line in, one per line out.  See /verif/DESIGN.md Appendix B.
-/
import Driver.Wire
import ErgoModel.Json
import ErgoModel.Path
import ErgoModel.Url
import ErgoModel.Program
import ErgoModel.LockFile
import ErgoModel.Render
import ErgoModel.Codec
import ErgoModel.Input
open Lean Ergo Ergo.Wire Ergo.Storage

def handle (j : Json) : Json :=
  match str j "op" with
  | "replay" =>
    match replay ((arr j "events").map eventOf) with
    | .error e => Json.mkObj [("err", replayErrStr e)]
    | .ok g =>
      let extra : List (String × Json) :=
        [("prune", Json.arr ((pruneTargets g).map Json.str).toArray),
         ("ready_order", Json.arr ((readyTasks g (str j "epic")).map fun t => Json.str t.id).toArray),
         ("cycles", Json.arr ((arr j "pairs").map fun p =>
            match p with
            | .arr #[.str a, .str b] => Json.bool (hasCycle g a b)
            | _ => Json.null).toArray)] ++
        (if bool j "compact" then [("compact", Json.arr ((compactEvents g).map eventJson).toArray)] else [])
      Json.mkObj ([("graph", graphJson g)] ++ extra)
  | "setev" =>
    match replay ((arr j "events").map eventOf) with
    | .error e => Json.mkObj [("err", "replay:" ++ replayErrStr e)]
    | .ok g =>
      match g.find? (str j "id") with
      | none => Json.mkObj [("err", "unknown_task")]
      | some t =>
        match buildSetEvents t (updatesOf (j.getObjValD "updates")) (str j "agent") (time j "now") with
        | .error e => Json.mkObj [("err", errStr e)]
        | .ok evs => Json.mkObj [("events", Json.arr (evs.map eventJson).toArray)]
  | "cmd" =>
    match requestOf (j.getObjValD "req") with
    | none => Json.mkObj [("err", "bad_request")]
    | some req =>
      let r := runCmd ((arr j "events").map eventOf) (envOf (j.getObjValD "env")) req
      let post : Json := match replay r.log with
        | .error e => Json.mkObj [("err", replayErrStr e)]
        | .ok g => graphJson g
      Json.mkObj [("err", match r.err with | some e => Json.str (errStr e) | none => Json.null),
        ("writes", Json.arr ((r.write.toList).map writeJson).toArray),
        ("created", match r.out.created with | some i => Json.str i | none => Json.null),
        ("claimed", match r.out.claimed with | some t => Json.str t.id | none => Json.null),
        ("pruned", Json.arr (r.out.pruned.map Json.str).toArray),
        ("reply", match replyOf (envOf (j.getObjValD "env")) req r with | some x => replyJson x | none => Json.null),
        ("post", post)]
  | "program" =>
    -- T3: a system-call program as strace reported it (tokens of vlib/strace.summarize) → the shape predicates of ErgoModel.Program
    let objOf (s : String) : Ergo.Program.Obj := if s.startsWith "lock" then .lock else if s.startsWith "tmp" then .tmp else if s.startsWith "dir" then .dir else .log
    let callOf (t : String) : Ergo.Program.Call :=
      let inside := ((t.splitOn "(").getD 1 "").dropRightWhile (· == ')')
      let name := (t.splitOn "(").headD ""
      let failed := (t.splitOn "=").length > 1 && !(t.endsWith ")")
      match name with
      | "open" =>
        let has (f : String) : Bool := (inside.splitOn f).length > 1
        let writable := has "O_WRONLY" || has "O_RDWR" || has "O_TRUNC"
        if has "O_APPEND" then .openAppend
        else if inside.startsWith "tmp" then (if has "O_TRUNC" || has "O_EXCL" then .openTmp else .openBad)   -- a stale temporary file must not shine through
        else if writable && objOf inside == .log then .openBad                                              -- the log writable without O_APPEND, or truncated
        else if writable then .other
        else .openRO (objOf inside)
      | "flock" => if (inside.splitOn "LOCK_UN").length > 1 then .flockUn else .flockEx (!failed)
      | "read" | "pread64" => .read (objOf inside)
      | "write" => .write (objOf inside)
      | "fsync" => .fsync (objOf inside)
      | "rename" | "renameat" | "renameat2" => if (inside.splitOn "->lock").length > 1 then .renameLock
                                                else if (inside.splitOn "log->away").length > 1 then .unlink .log      -- the log's name taken away
                                                else .rename
      | "ftruncate" => .truncate (objOf inside)
      | "unlink" | "unlinkat" => .unlink (objOf inside)
      | "close" => .close (objOf inside)
      | _ => .other
    let prog := (strs j "program").map callOf
    let absStr : Ergo.Program.Abs → String
      | .lockOk => "lockOk" | .lockBusy => "lockBusy" | .read => "read" | .write => "write" | .noWrite => "noWrite" | .unlock => "unlock"
    Json.mkObj [("writer", Ergo.Program.writerOK prog), ("busy", Ergo.Program.busyOK prog), ("reader", Ergo.Program.readerOK prog),
      ("abstract", Json.arr ((Ergo.Program.abstract prog).map fun a => Json.str (absStr a)).toArray)]
  | "lockprog" =>
    -- T3: one process's calls on the lock file (tokens of vlib/strace.lock_calls) → the automaton of ErgoModel.LockFile
    let callOf (t : String) : Ergo.LockFile.LCall :=
      match t with
      | "open+" => .openRO true | "open-" => .openRO false | "stat+" => .stat true | "stat-" => .stat false
      | "creat" => .creat | "flock+" => .flockEx true | "flock-" => .flockEx false | "unlock" => .flockUn
      | _ => .bad
    let cs := (strs j "calls").map callOf
    let kindStr : Ergo.LockFile.Kind → String
      | .start => "start" | .missing => "missing" | .creating => "creating" | .ensured => "ensured" | .opened => "opened" | .locked => "locked"
      | .done true => "done(ran)" | .done false => "done(refused)"
    Json.mkObj [("ok", Ergo.LockFile.acquireOK cs),
      ("end", match Ergo.LockFile.runCalls cs with | some k => Json.str (kindStr k) | none => Json.null)]
  | "view" =>
    -- the JSON values of `list` / `show` for a log
    match replay ((arr j "events").map eventOf) with
    | .error e => Json.mkObj [("err", replayErrStr e)]
    | .ok g =>
      let lists := (arr j "lists").map fun o =>
        Json.arr ((listJson g { epicId := str o "epic", readyOnly := bool o "ready", showAll := bool o "all", showEpics := bool o "epics" }).map listItemJson).toArray
      let shows := (strs j "shows").map fun id => match showJson g id with
        | .error e => Json.mkObj [("err", errStr e)]
        | .ok (.item i) => Json.mkObj [("item", showItemJson i)]
        | .ok (.epic e kids) => Json.mkObj [("epic", showItemJson e), ("children", Json.arr (kids.map showItemJson).toArray)]
      Json.mkObj [("lists", Json.arr lists.toArray), ("shows", Json.arr shows.toArray)]
  | "render" =>
    let cellsOf (k : String) : Ergo.Render.Str := (arr j k).filterMap fun x => match x with
      | .arr #[.num c, .num w] => some ⟨Char.ofNat c.mantissa.toNat, w.mantissa.toNat⟩ | _ => none
    let ell : Ergo.Render.Cell := match j.getObjVal? "ell" with
      | .ok (.arr #[.num c, .num w]) => ⟨Char.ofNat c.mantissa.toNat, w.mantissa.toNat⟩ | _ => ⟨'…', 1⟩
    let width : Int := (j.getObjValAs? Int "width").toOption.getD 80
    let line := Ergo.Render.formatTreeLine ell { base := cellsOf "base", title := cellsOf "title", annotation := cellsOf "ann",
                                                  blocker := cellsOf "blocker", id := cellsOf "id", width := width }
    let lens : List Nat := (arr j "abbr_lens").filterMap fun x => match x with | .num n => some n.mantissa.toNat | _ => none
    let abN := (j.getObjValAs? Nat "abbr_n").toOption.getD 0
    let kept := Ergo.Render.abbreviateKeep lens abN
    let total := lens.sum
    let abBytes := if total ≤ abN then total else (lens.take kept).sum + 3
    let inside := false
    let rowJson (r : Ergo.Render.Row) : Json := Json.mkObj [("id", r.id), ("child", r.child), ("last", r.last)]
    let views : Json := match replay ((arr j "events").map eventOf) with
      | .error _ => Json.mkObj []
      | .ok g =>
        let (a, b, c, d, e, f) := Ergo.Render.stats g g.tasks
        Json.mkObj [("all", Json.arr ((Ergo.Render.rows g .all).map rowJson).toArray),
          ("active", Json.arr ((Ergo.Render.rows g .active).map rowJson).toArray),
          ("ready", Json.arr ((Ergo.Render.rows g .ready).map rowJson).toArray),
          ("stats", Json.arr #[a, b, c, d, e, f]),
          ("topo", Json.arr ((Ergo.Render.topoSort g (g.tasks.filter fun t => !t.isEpic && t.epicId == "")).map fun t => Json.str t.id).toArray)]
    Json.mkObj [("line", Json.arr (line.map fun c => Json.num c.ch.toNat).toArray), ("line_width", Json.num (Ergo.Render.visLen line)),
      ("abbr_valid", !inside), ("abbr_bytes", abBytes), ("views", views)]
  | "path" =>
    let cpsOf (k : String) : List Char := (arr j k).filterMap fun x => match x with
      | .num n => some (Char.ofNat n.mantissa.toNat) | _ => none
    let sOut (l : List Char) : Json := Json.str (String.ofList l)
    let tree := j.getObjValD "tree"
    let kindAt0 (abs : List Char) : Ergo.Path.Kind :=
      match tree.getObjVal? (String.ofList abs) with
      | .ok (.str "dir") => .dir | .ok (.str "file") => .file | .ok (.str "other") => .other | _ => .missing
    -- ENOTDIR: some proper prefix of the path names something that is not a directory
    let rec blockedAt (q : List Char) (fuel : Nat) : Bool :=
      match fuel with
      | 0 => false
      | fuel + 1 =>
        let d := Ergo.Path.dir q
        if d == q then false
        else match kindAt0 d with
          | .file | .other => true
          | _ => blockedAt d fuel
    let kindAt (abs : List Char) : Ergo.Path.Kind :=
      match kindAt0 abs with
      | .missing => if blockedAt abs 64 then .blocked else .missing
      | k => k
    let cwd := cpsOf "cwd"
    -- the OS resolves a relative path against the working directory (no symlinks inside the walk's tree)
    let fs (p : List Char) : Ergo.Path.Kind :=
      if p.isEmpty then .missing else
      kindAt (if Ergo.Path.isAbs p then Ergo.Path.clean p else Ergo.Path.clean (cwd ++ '/' :: p))
    let p := cpsOf "p"; let repo := cpsOf "repo"
    let perr : Ergo.Path.PathErr → String
      | .absolute => "absolute" | .outside => "outside" | .inErgo => "in_ergo" | .missing => "missing" | .notFile => "not_file" | .access => "access"
    Json.mkObj [("clean", sOut (Ergo.Path.clean p)), ("dir", sOut (Ergo.Path.dir p)), ("base", sOut (Ergo.Path.base p)),
      ("abs", Ergo.Path.isAbs p), ("join", sOut (Ergo.Path.join [repo, p])),
      ("file_url", Json.str (String.ofList ((Ergo.Url.fileURL repo p).map fun b => Char.ofNat b.toNat))),
      ("validate", match Ergo.Path.validateResultPath kindAt repo p with
        | .ok c => Json.mkObj [("ok", sOut c)] | .error e => Json.mkObj [("err", perr e)]),
      ("resolve", match Ergo.Path.resolveErgoDir fs cwd (cpsOf "start") with
        | .ok c => Json.mkObj [("ok", sOut c)]
        | .error (.notDir _) => Json.mkObj [("err", "not_dir")]
        | .error .notFound => Json.mkObj [("err", "not_found")]
        | .error .statErr => Json.mkObj [("err", "stat_err")])]
  | "json" =>
    let cpsOf (k : String) : List Char := (arr j k).filterMap fun x => match x with
      | .num n => some (Char.ofNat n.mantissa.toNat) | _ => none
    let out (l : List Char) : Json := Json.arr (l.map fun c => Json.num c.toNat).toArray
    let sIn := cpsOf "s"
    Json.mkObj [("enc_html", out (Ergo.Json.encodeString true sIn)), ("enc_raw", out (Ergo.Json.encodeString false sIn)),
      ("dec", match Ergo.Json.decodeString (cpsOf "lit") with | some l => out l | none => Json.null),
      ("trim", out (Text.trimSpaceL sIn)), ("blank", Text.isBlankL sIn)]
  | "input" =>
    -- a JSON document on stdin, as bytes → the strict decode of ParseTaskInput / ParsePlanInput
    let os : Option String → Json := fun o => match o with | some x => Json.str x | none => Json.null
    let doc := unhex (str j "doc")
    if str j "kind" == "plan" then
      match Ergo.Input.parsePlanInput doc with
      | none => Json.mkObj [("parsed", false)]
      | some p => Json.mkObj [("parsed", true), ("fields", Json.mkObj [("title", os p.title), ("body", os p.body),
          ("tasks", Json.arr (p.tasks.map fun t => Json.mkObj [("title", os t.title), ("body", os t.body), ("after", Json.arr (t.after.map Json.str).toArray)]).toArray)])]
    else
      match Ergo.Input.parseTaskInput doc with
      | none => Json.mkObj [("parsed", false)]
      | some t => Json.mkObj [("parsed", true), ("fields", Json.mkObj [("title", os t.title), ("body", os t.body), ("epic", os t.epic), ("state", os t.state),
          ("claim", os t.claim), ("result_path", os t.resultPath), ("result_summary", os t.resultSummary)])]
  | "encode" =>
    -- the bytes a batch of events is written as: one line per event, each under its own envelope time stamp
    let evs := (arr j "events").map eventOf
    let ets := strs j "ets"
    let lines := (evs.zip ets).map fun p => Ergo.Codec.encodeEvent (fun _ => p.2) p.1 ++ [Storage.NL]
    Json.mkObj [("hex", tohex lines.flatten)]
  | "codec" =>
    -- the line codec: classification of raw bytes, encoding of an event, time stamp text
    let classJson : LineClass → Json
      | .blank => Json.str "blank" | .bad => Json.str "bad" | .ev e => eventJson e
    match j.getObjVal? "line", j.getObjVal? "event", j.getObjVal? "time_text", j.getObjVal? "instant" with
    | .ok (.str h), _, _, _ => Json.mkObj [("class", classJson (Ergo.Codec.classifyLine (unhex h)))]
    | _, .ok ev, _, _ => Json.mkObj [("enc", tohex (Ergo.Codec.encodeEvent (fun _ => str j "ets") (eventOf ev)))]
    | _, _, .ok (.str s), _ => Json.mkObj [("parsed", jot (Ergo.Time.parseS s))]
    | _, _, _, .ok (.str n) => Json.mkObj [("formatted", Ergo.Time.formatS (n.toNat?.getD 0))]
    | _, _, _, _ => Json.mkObj [("err", "bad_codec_request")]
  | "storage" =>
    -- the concrete codec decides; the table of classifications the harness obtained from the real decoder must agree with it
    let classify := Ergo.Codec.classifyLine
    let table := classifierOf (j.getObjValD "classes")
    let lines : List Storage.Bytes := match j.getObjVal? "classes" with
      | .ok (.obj o) => o.toList.map fun kv => unhex kv.1
      | _ => []
    let mismatches := lines.filter fun l => classify l != table l
    let limit := (j.getObjValAs? Nat "limit").toOption.getD 10485760
    let file := unhex (str j "file")
    let batch := (arr j "append").map fun a => (eventOf (a.getObjValD "event"), str a "ets")
    let evs := batch.map (·.1)
    -- the envelope time stamp is not part of the model's event: it travels beside it
    let encode : Event → Storage.Bytes := fun e => Ergo.Codec.encodeEvent (fun e' => ((batch.find? fun p => p.1 == e').map (·.2)).getD "") e
    let afterModel := if batch.isEmpty then Storage.repairTail classify file else Storage.appendFile classify encode file evs
    -- the same with each line encoded under its own envelope time stamp (two equal events of one batch may carry different ones)
    let after := batch.foldl (fun f p => f ++ Ergo.Codec.encodeEvent (fun _ => p.2) p.1 ++ [Storage.NL]) (Storage.repairTail classify file)
    Json.mkObj [("read", readJson (Storage.readEvents classify limit file)),
      ("after", tohex after), ("after_model", tohex afterModel),
      ("class_mismatch", Json.arr (mismatches.map fun l => Json.str (tohex l)).toArray),
      ("read_after", readJson (Storage.readEvents classify limit after))]
  | _ => Json.mkObj [("err", "bad_op")]

partial def loop (hin : IO.FS.Stream) (hout : IO.FS.Stream) : IO Unit := do
  let line ← hin.getLine
  if line.isEmpty then return ()
  let out := match Json.parse line with
    | .error e => Json.mkObj [("err", "bad_json: " ++ e)]
    | .ok j =>
      let r := handle j
      match j.getObjVal? "tag" with
      | .ok t => r.setObjVal! "tag" t
      | _ => r
  hout.putStrLn out.compress
  hout.flush
  loop hin hout

def main : IO Unit := do loop (← IO.getStdin) (← IO.getStdout)
