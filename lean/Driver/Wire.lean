/-
  Driver.Wire — JSON wire format between the harnesses and the executable model.
  Times travel as decimal strings (ns since Go's zero time) or null.
-/
import Lean.Data.Json
import ErgoModel.Exec
import ErgoModel.View
import ErgoModel.Storage
import ErgoModel.Input
open Lean
namespace Ergo.Wire

def str (j : Json) (k : String) : String := (j.getObjValAs? String k).toOption.getD ""
def bool (j : Json) (k : String) : Bool := (j.getObjValAs? Bool k).toOption.getD false
def optStr (j : Json) (k : String) : Option String :=
  match j.getObjVal? k with
  | .ok (.str s) => some s
  | _ => none
def optTime (j : Json) (k : String) : Option Time :=
  match j.getObjVal? k with
  | .ok (.str s) => s.toNat?
  | .ok (.num n) => if n.exponent == 0 && n.mantissa ≥ 0 then some n.mantissa.toNat else none
  | _ => none
def time (j : Json) (k : String) : Time := (optTime j k).getD 0
def arr (j : Json) (k : String) : List Json :=
  match j.getObjVal? k with
  | .ok (.arr a) => a.toList
  | _ => []
def strs (j : Json) (k : String) : List String := (arr j k).filterMap fun x => match x with | .str s => some s | _ => none

def eventOf (j : Json) : Event :=
  match str j "k" with
  | "new" => .newItem (bool j "epic") (str j "id") (str j "uuid") (str j "epic_id") (St.ofString (str j "st"))
               (str j "title") (str j "body") (optTime j "at")
  | "state" => .state (str j "id") (St.ofString (str j "st")) (optTime j "ts")
  | "claim" => .claim (str j "id") (str j "agent") (optTime j "ts")
  | "unclaim" => .unclaim (str j "id")
  | "link" => .link (str j "from") (str j "to") (bool j "dep")
  | "unlink" => .unlink (str j "from") (str j "to") (bool j "dep")
  | "title" => .title (str j "id") (str j "title") (optTime j "ts")
  | "body" => .body (str j "id") (str j "body") (optTime j "ts")
  | "epic" => .epic (str j "id") (str j "epic_id") (optTime j "ts")
  | "tomb" => .tombstone (str j "id") (str j "agent") (optTime j "ts")
  | "result" => .result (str j "id") (str j "summary") (str j "path") (str j "sha") (str j "mtime") (str j "git") (optTime j "ts")
  | "bad" => .badData
  | _ => .ignored

def jt (t : Time) : Json := .str (toString t)
def jot : Option Time → Json
  | some t => jt t
  | none => .null

def eventJson : Event → Json
  | .newItem e id uuid epicId st title body cat => Json.mkObj [("k","new"),("epic",e),("id",id),("uuid",uuid),("epic_id",epicId),("st",st.toString),("title",title),("body",body),("at",jot cat)]
  | .state id st ts => Json.mkObj [("k","state"),("id",id),("st",st.toString),("ts",jot ts)]
  | .claim id a ts => Json.mkObj [("k","claim"),("id",id),("agent",a),("ts",jot ts)]
  | .unclaim id => Json.mkObj [("k","unclaim"),("id",id)]
  | .link f t d => Json.mkObj [("k","link"),("from",f),("to",t),("dep",d)]
  | .unlink f t d => Json.mkObj [("k","unlink"),("from",f),("to",t),("dep",d)]
  | .title id s ts => Json.mkObj [("k","title"),("id",id),("title",s),("ts",jot ts)]
  | .body id s ts => Json.mkObj [("k","body"),("id",id),("body",s),("ts",jot ts)]
  | .epic id e ts => Json.mkObj [("k","epic"),("id",id),("epic_id",e),("ts",jot ts)]
  | .tombstone id a ts => Json.mkObj [("k","tomb"),("id",id),("agent",a),("ts",jot ts)]
  | .result id s p sha m g ts => Json.mkObj [("k","result"),("id",id),("summary",s),("path",p),("sha",sha),("mtime",m),("git",g),("ts",jot ts)]
  | .ignored => Json.mkObj [("k","ignored")]
  | .badData => Json.mkObj [("k","bad")]

def resultJson (r : ResultRec) : Json :=
  Json.mkObj [("summary",r.summary),("path",r.path),("sha",r.sha),("mtime",r.mtime),("git",r.git),("at",jt r.time)]

def taskJson (g : Graph) (t : Task) : Json :=
  Json.mkObj [("id",t.id),("uuid",t.uuid),("epic_id",t.epicId),("is_epic",t.isEpic),("st",t.st.toString),
    ("title",t.title),("body",t.body),("claimed_by",t.claimedBy),("created_at",jt t.createdAt),("updated_at",jt t.updatedAt),
    ("results", Json.arr (t.results.map resultJson).toArray),
    ("c_title",t.cTitle),("c_body",t.cBody),("c_st",t.cSt.toString),("c_epic",t.cEpic),
    ("last_state",jt t.lastState),("last_claim",jt t.lastClaim),("last_title",jt t.lastTitle),("last_body",jt t.lastBody),("last_epic",jt t.lastEpic),
    ("deps", Json.arr ((sortIds (g.depsOf t.id)).map Json.str).toArray),
    ("rdeps", Json.arr ((sortIds (g.rdepsOf t.id)).map Json.str).toArray),
    ("ready", isReady g t), ("blocked", isBlocked g t)]

def graphJson (g : Graph) : Json :=
  Json.mkObj [("tasks", Json.arr ((g.tasks.mergeSort taskIdLe).map (taskJson g)).toArray),
    ("deps", Json.arr ((g.deps.mergeSort edgeLe).map fun e => Json.arr #[e.1, e.2]).toArray),
    ("tombs", Json.arr ((sortIds g.tombs).map Json.str).toArray)]

def replayErrStr : ReplayErr → String
  | .badData => "bad_data" | .duplicate _ => "duplicate" | .badTime => "bad_time"

def errStr : CmdErr → String
  | .replay e => "replay:" ++ replayErrStr e
  | .readErr => "read_err" | .lockBusy => "lock_busy" | .usage => "usage" | .noFields => "no_fields"
  | .parseErr => "parse_error" | .validation => "validation" | .needAgent => "need_agent"
  | .pruned _ => "pruned" | .unknownTask _ => "unknown_task" | .unknownId _ => "unknown_id"
  | .epicNoState => "epic_no_state" | .epicNoClaim => "epic_no_claim"
  | .implicitClaimNeedsAgent => "implicit_claim_needs_agent" | .emptyTitle => "empty_title" | .epicEpic => "epic_epic"
  | .invalidState => "invalid_state" | .badTransition => "bad_transition" | .claimInvariant => "claim_invariant"
  | .unknownEpic => "unknown_epic" | .notEpic => "not_epic" | .idExhausted => "id_exhausted"
  | .depSelf => "dep_self" | .depKinds => "dep_kinds" | .depCycle => "dep_cycle" | .noReady => "no_ready"
  | .resultPair => "result_pair" | .resultEpic => "result_epic" | .resultSummary => "result_summary"
  | .resultPath _ => "result_path" | .bodyExclusive => "body_exclusive" | .needTitle => "need_title"
  | .emptyBody => "empty_body" | .conflictingFlags => "conflicting_flags" | .noSuchEpic => "no_such_epic"

def updatesOf (j : Json) : Updates :=
  { title := optStr j "title", body := optStr j "body", epic := optStr j "epic",
    state := optStr j "state", claim := optStr j "claim" }

def taskInputOf (j : Json) : TaskInput :=
  { title := optStr j "title", body := optStr j "body", epic := optStr j "epic", state := optStr j "state",
    claim := optStr j "claim", resultPath := optStr j "result_path", resultSummary := optStr j "result_summary" }

def flagsOf (j : Json) : Flags :=
  { title := str j "title", body := str j "body", epic := str j "epic", state := str j "state", claim := str j "claim",
    resultPath := str j "result_path", resultSummary := str j "result_summary" }

def unhexS (s : String) : List UInt8 :=
  let hv (c : Char) : Nat := if c.isDigit then c.toNat - '0'.toNat else if 'a' ≤ c ∧ c ≤ 'f' then c.toNat - 'a'.toNat + 10 else c.toNat - 'A'.toNat + 10
  let rec go : List Char → List UInt8
    | a :: b :: rest => UInt8.ofNat (hv a * 16 + hv b) :: go rest
    | _ => []
  go s.toList

def rawInputOf (j : Json) : RawInput :=
  { bodyStdin := bool j "body_stdin", piped := bool j "piped",
    flags := match j.getObjVal? "flags" with | .ok f => flagsOf f | _ => {},
    stdinText := str j "stdin_text",
    -- the document on stdin as the bytes the real command got (decoded by ErgoModel.Input), else what the harness says it holds
    json := match j.getObjVal? "stdin_hex" with
      | .ok (.str h) => Ergo.Input.parseTaskInput (unhexS h)
      | _ => match j.getObjVal? "json" with | .ok (.obj o) => some (taskInputOf (.obj o)) | _ => none }

def planTaskOf (j : Json) : PlanTask :=
  { title := optStr j "title", body := optStr j "body", after := strs j "after" }
def planOf (j : Json) : PlanInput :=
  { title := optStr j "title", body := optStr j "body", tasks := (arr j "tasks").map planTaskOf }

def requestOf (j : Json) : Option Request :=
  match str j "cmd" with
  | "new_task" => some (.newTask (rawInputOf j))
  | "new_epic" => some (.newEpic (rawInputOf j))
  | "set" => some (.set (str j "id") (rawInputOf j))
  | "claim" => some (.claim (str j "id"))
  | "claim_oldest" => some (.claimOldest (str j "epic"))
  | "sequence" => some (.sequence (strs j "args"))
  | "plan" => some (.plan (match j.getObjVal? "stdin_hex" with
      | .ok (.str h) => Ergo.Input.parsePlanInput (unhexS h)
      | _ => match j.getObjVal? "plan" with | .ok (.obj o) => some (planOf (.obj o)) | _ => none))
  | "prune" => some (.prune (bool j "yes"))
  | "compact" => some .compact
  | _ => none

def pathOutcomeOf (j : Json) : PathOutcome :=
  match j.getObjVal? "po" with
  | .ok p => if bool p "ok" then .ok (str p "clean") (str p "sha") (str p "mtime") (str p "git") else .rejected (str p "why")
  | _ => .rejected "none"

def envOf (j : Json) : Env :=
  { agent := str j "agent", times := (arr j "times").filterMap fun x => match x with | .str s => s.toNat? | _ => none,
    ids := strs j "ids", uuids := strs j "uuids", po := pathOutcomeOf j }

def writeJson : Write → Json
  | .append evs => Json.mkObj [("w","append"),("events", Json.arr (evs.map eventJson).toArray)]
  | .replace evs => Json.mkObj [("w","replace"),("events", Json.arr (evs.map eventJson).toArray)]

end Ergo.Wire

namespace Ergo.Wire
open Ergo.Storage

def hexVal (c : Char) : Nat :=
  if c.isDigit then c.toNat - '0'.toNat else if 'a' ≤ c ∧ c ≤ 'f' then c.toNat - 'a'.toNat + 10 else c.toNat - 'A'.toNat + 10

def unhex (s : String) : Bytes :=
  let rec go : List Char → Bytes
    | a :: b :: rest => UInt8.ofNat (hexVal a * 16 + hexVal b) :: go rest
    | _ => []
  go s.toList

def hexDigit (n : Nat) : Char := if n < 10 then Char.ofNat ('0'.toNat + n) else Char.ofNat ('a'.toNat + n - 10)
def tohex (b : Bytes) : String := String.ofList (b.flatMap fun x => [hexDigit (x.toNat / 16), hexDigit (x.toNat % 16)])

/-- line classifier from the table the harness obtained from the real decoder -/
def classifierOf (j : Json) : Bytes → LineClass := fun line =>
  match j.getObjVal? (tohex line) with
  | .ok (.str "blank") => .blank
  | .ok (.str _) => .bad
  | .ok (.obj o) => .ev (eventOf (.obj o))
  | _ => .bad

def readJson : Except ReadErr (List Event) → Json
  | .ok evs => Json.mkObj [("events", Json.arr (evs.map eventJson).toArray)]
  | .error (.badLine n) => Json.mkObj [("err", "bad_line"), ("line", n)]
  | .error .tooLong => Json.mkObj [("err", "too_long")]


def listItemJson (i : ListItem) : Json :=
  Json.mkObj [("kind", if i.isEpic then "epic" else "task"), ("id", i.id), ("epic_id", i.epicId), ("state", i.st.toString),
    ("claimed_by", i.claimedBy), ("title", i.title), ("ready", i.ready), ("blocked", i.blocked), ("has_results", i.hasResults)]

def showItemJson (i : ShowItem) : Json :=
  Json.mkObj [("id", i.id), ("uuid", i.uuid), ("epic_id", i.epicId), ("state", i.st.toString), ("claimed_by", i.claimedBy),
    ("claimed_at", jt i.claimedAt), ("created_at", jt i.createdAt), ("updated_at", jt i.updatedAt),
    ("deps", Json.arr (i.deps.map Json.str).toArray), ("rdeps", Json.arr (i.rdeps.map Json.str).toArray),
    ("title", i.title), ("body", i.body), ("results", Json.arr (i.results.map resultJson).toArray)]

def edgesJson (es : List (Id × Id)) : Json := Json.arr (es.map fun e => Json.arr #[e.1, e.2]).toArray

def replyJson : Reply → Json
  | .created isEpic id uuid epicId st title body cat =>
    Json.mkObj [("k", "created"), ("kind", if isEpic then "epic" else "task"), ("id", id), ("uuid", uuid), ("epic_id", epicId),
      ("state", st.toString), ("title", title), ("body", body), ("created_at", jt cat)]
  | .set id fields st cb => Json.mkObj [("k", "set"), ("id", id), ("updated_fields", Json.arr (fields.map Json.str).toArray), ("state", st.toString), ("claimed_by", cb)]
  | .claimed id epic st title body agent cat =>
    Json.mkObj [("k", "claimed"), ("id", id), ("epic", epic), ("state", st.toString), ("title", title), ("body", body), ("agent_id", agent), ("claimed_at", jt cat)]
  | .noReady => Json.mkObj [("k", "no_ready")]
  | .sequence un es => Json.mkObj [("k", "sequence"), ("action", if un then "unlink" else "link"), ("edges", edgesJson es)]
  | .pruned dry ids => Json.mkObj [("k", "pruned"), ("dry_run", dry), ("ids", Json.arr ((sortIds ids).map Json.str).toArray)]
  | .compacted => Json.mkObj [("k", "compacted")]
  | .planned o => Json.mkObj [("k", "planned"), ("epic_id", o.epicId), ("epic_uuid", o.epicUuid), ("title", o.title), ("created_at", jt o.createdAt),
      ("tasks", Json.arr (o.tasks.map fun t => Json.arr #[t.1, t.2]).toArray), ("edges", edgesJson o.edges)]

end Ergo.Wire
