/-
  ErgoModel.Time — the text form of a time stamp (util.go: `formatTime` = `t.UTC().Format(time.RFC3339Nano)`,
  `parseTime` = `time.Parse(time.RFC3339Nano, s)`).  A `Time` is a number of nanoseconds since Go's zero time
  0001-01-01T00:00:00Z (ErgoModel.Basic); text is `List Char`.

  `parse` follows Go 1.24's generic `time.parse` for the layout "2006-01-02T15:04:05.999999999Z07:00" chunk by chunk (the RFC 3339
  fast path `parseRFC3339` accepts a subset of it with the same result): four-digit year, two-digit month and day, a one- or
  two-digit hour, two-digit minute and second, an optional fraction introduced by '.' or ',' with any number of digits (nine are
  used), then `Z` or a `±hh:mm` offset with hh ≤ 24, mm ≤ 60.  Instants before the zero time (year 0000, or 0001-01-01 with a
  positive offset) are outside the model (`Time = Nat`): `parse` answers `none` for them (DESIGN.md §9).
-/
import ErgoModel.Basic
namespace Ergo.Time

def isLeap (y : Nat) : Bool := y % 4 == 0 && (y % 100 != 0 || y % 400 == 0)

/-- days of month `m` (1-based) in year `y` -/
def daysIn (m y : Nat) : Nat :=
  if m = 2 then (if isLeap y then 29 else 28)
  else if m = 4 ∨ m = 6 ∨ m = 9 ∨ m = 11 then 30 else 31

/-- days of the year before the first of month `m` (1-based) -/
def daysBefore (m : Nat) (leap : Bool) : Nat :=
  let l := if leap then 1 else 0
  if m ≤ 1 then 0 else if m = 2 then 31 else if m = 3 then 59 + l else if m = 4 then 90 + l else if m = 5 then 120 + l
  else if m = 6 then 151 + l else if m = 7 then 181 + l else if m = 8 then 212 + l else if m = 9 then 243 + l
  else if m = 10 then 273 + l else if m = 11 then 304 + l else 334 + l

/-- days from 0001-01-01 to `y-m-d` (proleptic Gregorian calendar, `y ≥ 1`) -/
def daysFromCivil (y m d : Nat) : Nat :=
  365 * (y - 1) + (y - 1) / 4 - (y - 1) / 100 + (y - 1) / 400 + daysBefore m (isLeap y) + (d - 1)

/-- month (1-based) containing day-of-year `doy` (0-based) -/
def monthOf (doy : Nat) (leap : Bool) : Nat :=
  let l := if leap then 1 else 0
  if doy < 31 then 1 else if doy < 59 + l then 2 else if doy < 90 + l then 3 else if doy < 120 + l then 4
  else if doy < 151 + l then 5 else if doy < 181 + l then 6 else if doy < 212 + l then 7 else if doy < 243 + l then 8
  else if doy < 273 + l then 9 else if doy < 304 + l then 10 else if doy < 334 + l then 11 else 12

/-- year, month, day of the `n`-th day after 0001-01-01 -/
def civilFromDays (n : Nat) : Nat × Nat × Nat :=
  let n400 := n / 146097
  let r := n % 146097
  let n100 := min (r / 36524) 3
  let r1 := r - n100 * 36524
  let n4 := r1 / 1461
  let r2 := r1 % 1461
  let n1 := min (r2 / 365) 3
  let doy := r2 - n1 * 365
  let y := 400 * n400 + 100 * n100 + 4 * n4 + n1 + 1
  let m := monthOf doy (isLeap y)
  (y, m, doy - daysBefore m (isLeap y) + 1)

def digitChar (n : Nat) : Char := Char.ofNat (48 + n % 10)
def d2 (n : Nat) : List Char := [digitChar (n / 10), digitChar n]
def d4 (n : Nat) : List Char := [digitChar (n / 1000), digitChar (n / 100), digitChar (n / 10), digitChar n]
def d9 (n : Nat) : List Char :=
  [digitChar (n / 100000000), digitChar (n / 10000000), digitChar (n / 1000000), digitChar (n / 100000), digitChar (n / 10000),
   digitChar (n / 1000), digitChar (n / 100), digitChar (n / 10), digitChar n]

def dropTrailingZeros (l : List Char) : List Char := (l.reverse.dropWhile (· == '0')).reverse

/-- `appendInt(b, year, 4)`: at least four digits -/
def yearDigits (y : Nat) : List Char := if y < 10000 then d4 y else (Nat.toDigits 10 y)

/-- `formatTime` -/
def format (t : Time) : List Char :=
  let secs := t / 1000000000
  let ns := t % 1000000000
  let (y, m, d) := civilFromDays (secs / 86400)
  let rem := secs % 86400
  yearDigits y ++ '-' :: d2 m ++ '-' :: d2 d ++ 'T' :: d2 (rem / 3600) ++ ':' :: d2 (rem % 3600 / 60) ++ ':' :: d2 (rem % 60) ++
    (if ns = 0 then [] else '.' :: dropTrailingZeros (d9 ns)) ++ ['Z']

def digitVal? (c : Char) : Option Nat := if 48 ≤ c.toNat ∧ c.toNat ≤ 57 then some (c.toNat - 48) else none
def isDigit (c : Char) : Bool := (digitVal? c).isSome

/-- Go's `getnum`: one or two digits; `fixed` demands two -/
def getnum (s : List Char) (fixed : Bool) : Option (Nat × List Char) :=
  match s with
  | [] => none
  | a :: rest =>
    match digitVal? a with
    | none => none
    | some x =>
      match rest with
      | [] => if fixed then none else some (x, [])
      | b :: rest' =>
        match digitVal? b with
        | some y => some (x * 10 + y, rest')
        | none => if fixed then none else some (x, rest)

def expect (c : Char) : List Char → Option (List Char)
  | [] => none
  | x :: r => if x = c then some r else none

def year4 : List Char → Option (Nat × List Char)
  | a :: b :: c :: d :: r =>
    match digitVal? a, digitVal? b, digitVal? c, digitVal? d with
    | some a, some b, some c, some d => some (a * 1000 + b * 100 + c * 10 + d, r)
    | _, _, _, _ => none
  | _ => none

/-- value of a run of decimal digits -/
def digitsVal (l : List Char) : Nat := l.foldl (fun acc c => acc * 10 + (c.toNat - 48)) 0

/-- the optional fraction: nanoseconds and the rest -/
def frac (s : List Char) : Nat × List Char :=
  match s with
  | p :: d :: r =>
    if (p = '.' ∨ p = ',') ∧ isDigit d = true then
      let ds := (d :: r).takeWhile isDigit
      let used := ds.take 9
      (digitsVal used * 10 ^ (9 - used.length), (d :: r).dropWhile isDigit)
    else (0, s)
  | _ => (0, s)

/-- the zone: seconds east of UTC, and the rest -/
def zone (s : List Char) : Option (Int × List Char) :=
  match s with
  | 'Z' :: r => some (0, r)
  | sg :: h1 :: h2 :: c :: m1 :: m2 :: r =>
    if c ≠ ':' then none else
    match digitVal? h1, digitVal? h2, digitVal? m1, digitVal? m2 with
    | some a, some b, some x, some y =>
      let hr := a * 10 + b
      let mm := x * 10 + y
      if hr > 24 ∨ mm > 60 then none
      else if sg = '+' then some (((hr * 60 + mm) * 60 : Nat), r)
      else if sg = '-' then some (-(((hr * 60 + mm) * 60 : Nat) : Int), r)
      else none
    | _, _, _, _ => none
  | _ => none

/-- `parseTime` -/
def parse (s : List Char) : Option Time := do
  let (y, s) ← year4 s
  let s ← expect '-' s
  let (mo, s) ← getnum s true
  if mo = 0 ∨ 12 < mo then none
  let s ← expect '-' s
  let (d, s) ← getnum s true
  let s ← expect 'T' s
  let (h, s) ← getnum s false
  if 24 ≤ h then none
  let s ← expect ':' s
  let (mi, s) ← getnum s true
  if 60 ≤ mi then none
  let s ← expect ':' s
  let (sec, s) ← getnum s true
  if 60 ≤ sec then none
  let (ns, s) := frac s
  let (off, s) ← zone s
  if s ≠ [] then none
  if d < 1 ∨ d > daysIn mo y then none
  if y = 0 then none
  let total : Int := ((daysFromCivil y mo d * 86400 + h * 3600 + mi * 60 + sec : Nat) : Int) - off
  if total < 0 then none
  pure (total.toNat * 1000000000 + ns)

def formatS (t : Time) : String := String.ofList (format t)
def parseS (s : String) : Option Time := parse s.toList

end Ergo.Time
