/-
  ErgoModel.ProcBytes — the processes of ErgoModel.Proc with the log as *bytes*: files are byte strings in ergo's real line format
  (ErgoModel.Codec), a writer's single `write(2)` appends the encoded lines of its batch (after the tail repair), `plan` / `compact`
  put a complete new file under the log's name, a reader decodes the bytes of the file it opened — and a writer may be killed *inside*
  its write, leaving the first `k` bytes of the batch (`tornWrite`).  `abs` forgets the bytes: ErgoProofs/Lemmas/ProcBytesThm.lean
  shows that every step other than `tornWrite` is a step of `Proc` on the decoded files, so that the theorems about `Proc`
  (C01, C02, C13) speak about what is on disk.
-/
import ErgoModel.Proc
import ErgoModel.Codec
namespace Ergo.ProcB
open Ergo.Storage Ergo.Codec Ergo.Proc

structure BSys where
  files   : List Bytes                       -- contents; an append changes one in place, a rename adds a new one
  cur     : Nat                              -- which file the log's name points to
  holder  : Option Nat
  writers : List Writer
  readers : List RPhase
  limit   : Nat                              -- the reader's line-length limit
  ets     : Event → String                   -- envelope time stamps of the lines written
  commits : List (Nat × List Event × Write)  -- ghost, as in `Proc.Sys`
  history : List (List Event)                -- ghost

def BSys.file (s : BSys) : Bytes := s.files.getD s.cur []

/-- what a reader makes of a file (`[]` if it does not load — never the case for the files of a reachable state) -/
def decode (limit : Nat) (f : Bytes) : List Event :=
  match readEvents classifyLine limit f with
  | .ok es => es
  | .error _ => []

/-- forget the bytes -/
def abs (s : BSys) : Sys :=
  { inodes := s.files.map (decode s.limit), cur := s.cur, holder := s.holder, writers := s.writers, readers := s.readers,
    commits := s.commits, history := s.history }

def setPhaseB (s : BSys) (p : Nat) (ph : Phase) : BSys :=
  { s with writers := s.writers.modify p fun w => { w with phase := ph } }

def setReaderB (s : BSys) (r : Nat) (ph : RPhase) : BSys := { s with readers := s.readers.set r ph }

/-- the bytes after a write; the ghost history records the decoded log -/
def writeBytes (s : BSys) : Write → BSys
  | .append evs =>
    { s with files := s.files.set s.cur (appendFile classifyLine (encodeEvent s.ets) s.file evs),
             history := s.history ++ [decode s.limit s.file ++ evs] }
  | .replace evs =>
    { s with files := s.files ++ [replaceFile (encodeEvent s.ets) evs], cur := s.files.length, history := s.history ++ [evs] }

/-- the lines of a batch are shorter than the reader's limit (an event above it — 10 MiB — would be written and then refused by every reader:
    observed, outside the given properties, DESIGN §6; the runs considered stay below it) -/
def Fits (s : BSys) (evs : List Event) : Prop := ∀ e ∈ evs, (encodeEvent s.ets e).length < s.limit

def wEvents : Write → List Event
  | .append evs => evs
  | .replace evs => evs

inductive BStep : BSys → BSys → Prop where
  | lockOk (s p w) : s.writers[p]? = some w → w.phase = .start → s.holder = none →
      BStep s { setPhaseB s p .locked with holder := some p }
  | lockBusy (s p w q) : s.writers[p]? = some w → w.phase = .start → s.holder = some q →
      BStep s (setPhaseB s p (.finished .busy))
  /-- `readEvents` of the bytes under the log's name -/
  | read (s p w snap) : s.writers[p]? = some w → w.phase = .locked → readEvents classifyLine s.limit s.file = .ok snap →
      BStep s (setPhaseB s p (.read snap))
  | decideErr (s p w snap e) : s.writers[p]? = some w → w.phase = .read snap → w.decide snap = .error e →
      BStep s (setPhaseB s p (.erred snap e))
  /-- the whole batch reaches the file with one `write(2)` (or the rewritten file gets the log's name) -/
  | write (s p w snap wr) : s.writers[p]? = some w → w.phase = .read snap → w.decide snap = .ok wr → Fits s (wEvents wr) →
      BStep s { setPhaseB (writeBytes s wr) p (.wrote snap wr) with commits := s.commits ++ [(p, snap, wr)] }
  /-- killed inside the `write(2)`: the first `k` bytes of the batch are in the file, the process is gone, its lock released -/
  | tornWrite (s p w snap evs k) : s.writers[p]? = some w → w.phase = .read snap → w.decide snap = .ok (.append evs) → Fits s evs →
      BStep s { setPhaseB { s with files := s.files.set s.cur (appendTorn classifyLine (encodeEvent s.ets) s.file evs k) } p .crashed
                with holder := if s.holder = some p then none else s.holder }
  | unlockOk (s p w snap wr) : s.writers[p]? = some w → w.phase = .wrote snap wr →
      BStep s { setPhaseB s p (.finished (.ok snap wr)) with holder := none }
  | unlockErr (s p w snap e) : s.writers[p]? = some w → w.phase = .erred snap e →
      BStep s { setPhaseB s p (.finished (.failed snap e)) with holder := none }
  | crash (s p w) : s.writers[p]? = some w → (∀ o, w.phase ≠ .finished o) → w.phase ≠ .crashed →
      BStep s { setPhaseB s p .crashed with holder := if s.holder = some p then none else s.holder }
  | rOpen (s r) : s.readers[r]? = some .start → BStep s (setReaderB s r (.opened s.cur))
  | rRead (s r i) : s.readers[r]? = some (.opened i) → BStep s (setReaderB s r (.done (decode s.limit (s.files.getD i []))))

inductive BReachable : BSys → BSys → Prop where
  | refl (s) : BReachable s s
  | tail {a b c} : BReachable a b → BStep b c → BReachable a c

def BSys.init (f : Bytes) (ws : List (List Event → Except CmdErr Write)) (nReaders limit : Nat) (ets : Event → String) : BSys :=
  { files := [f], cur := 0, holder := none, writers := ws.map fun d => ⟨d, .start⟩, readers := List.replicate nReaders .start,
    limit, ets, commits := [], history := [decode limit f] }

end Ergo.ProcB
