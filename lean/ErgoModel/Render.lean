/-
  ErgoModel.Render — the human `list` view (tree_view.go): display-width arithmetic of a row, Kahn ordering of siblings,
  which items each view shows, and the summary buckets.  A display string is a list of cells (character + the width
  go-runewidth assigns to it); colour codes have width 0 and are left out.
-/
import ErgoModel.Query
namespace Ergo.Render

structure Cell where
  ch : Char
  w  : Nat          -- 0, 1 or 2
  deriving DecidableEq, Repr, Inhabited

abbrev Str := List Cell

def visLen (s : Str) : Int := (s.map fun c => (c.w : Int)).sum
def sp : Cell := ⟨' ', 1⟩
def spaces (n : Int) : Str := List.replicate n.toNat sp

/-- the cells that fit into `target` columns, stopping at the first one that does not -/
def takeWidth : Str → Int → Str
  | [], _ => []
  | c :: cs, target => if (c.w : Int) > target then [] else c :: takeWidth cs (target - c.w)

/-- `truncateToWidth` (text without escape sequences); `ell` is "…" with its width -/
def truncateToWidth (ell : Cell) (s : Str) (maxW : Int) : Str :=
  if maxW ≤ 0 then []
  else if maxW ≤ 1 then [ell]
  else if visLen s ≤ maxW then s
  else
    let target := maxW - ell.w
    if target < 1 then [ell] else takeWidth s target ++ [ell]

/-- `unicode.IsControl`: category Cc -/
def isControl (c : Char) : Bool := c.toNat < 32 || (0x7F ≤ c.toNat && c.toNat ≤ 0x9F)

/-- `singleLine`: control characters become spaces, so one item stays on one row -/
def singleLine (s : Str) : Str := s.map fun c => if isControl c.ch then sp else c

structure RowIn where
  base       : Str            -- tree prefix + connector + icon (always ends in a space)
  title      : Str
  annotation : Str            -- "" or "  @claimer"
  blocker    : Str            -- "" or "⧗ …"
  id         : Str            -- six cells of width 1
  width      : Int            -- terminal width
  deriving Repr, Inhabited

/-- `formatTreeLine` without colours -/
def formatTreeLine (ell : Cell) (r0 : RowIn) : Str :=
  let r : RowIn := { r0 with title := singleLine r0.title, annotation := singleLine r0.annotation, blocker := singleLine r0.blocker }
  let minGap : Int := 2
  let idStart0 := r.width - 2 - r.id.length - minGap
  let idStart := if idStart0 < 0 then 0 else idStart0
  let baseW := visLen r.base
  let maxContent0 := idStart - minGap - baseW
  let maxContent := if maxContent0 < 0 then 0 else maxContent0
  let (title, ann) :=
    if visLen r.title + visLen r.annotation > maxContent then
      let maxAnn := maxContent - visLen r.title
      let ann := if maxAnn > 0 && !r.annotation.isEmpty then truncateToWidth ell r.annotation maxAnn else []
      let title := if visLen r.title > maxContent then truncateToWidth ell r.title maxContent else r.title
      (title, ann)
    else (r.title, r.annotation)
  let left := r.base ++ title ++ ann
  let withBlocker :=
    if r.blocker.isEmpty then left
    else
      let available := idStart - minGap - visLen left
      if available > 6 then
        let blockerCol0 := r.width * 55 / 100
        let maxStart := idStart - minGap - 1
        let blockerCol := if blockerCol0 > maxStart then maxStart else blockerCol0
        let pad := blockerCol - visLen left
        let sb := left ++ (if pad > 1 then spaces pad else [sp, sp])
        let maxB := idStart - minGap - visLen sb
        if maxB > 0 then sb ++ (if visLen r.blocker > maxB then truncateToWidth ell r.blocker maxB else r.blocker) else sb
      else left
  let padding0 := idStart - visLen withBlocker
  let padding := if padding0 < 0 then 0 else padding0
  withBlocker ++ spaces padding ++ [sp, sp] ++ r.id

/-- `abbreviate`: at most `maxLen` *bytes*, cut on a character boundary (`lens` = UTF-8 length of each character).
    Returns the number of whole characters kept before the "…" (all of them if the text fits). -/
def abbreviateKeep (lens : List Nat) (maxLen : Nat) : Nat :=
  if lens.sum ≤ maxLen then lens.length
  else if maxLen ≤ 1 then 0
  else
    let rec go : List Nat → Nat → Nat → Nat
      | [], _, k => k
      | l :: ls, room, k => if l ≤ room then go ls (room - l) (k + 1) else k
    go lens (maxLen - 1) 0

/-! ### sibling order: Kahn's algorithm with the (ready first, id) queue order -/
def qLe (g : Graph) (a b : Task) : Bool :=
  let ra := isReady g a; let rb := isReady g b
  if ra != rb then ra else strLe a.id b.id

def dependsOn (g : Graph) (a b : Id) : Bool := g.deps.contains (a, b)

def inDegree (g : Graph) (tasks : List Task) (t : Task) : Nat :=
  ((g.depsOf t.id).eraseDups.filter fun d => tasks.any (·.id == d)).length

def kahn (g : Graph) (tasks : List Task) : Nat → List Task → List (Id × Nat) → List Task → List Task
  | 0, _, _, acc => acc
  | _ + 1, [], _, acc => acc
  | fuel + 1, t :: q, deg, acc =>
    let hit := tasks.filter fun o => dependsOn g o.id t.id
    let deg' := deg.map fun (i, n) => if hit.any (·.id == i) then (i, n - 1) else (i, n)
    let newly := hit.filter fun o => deg.lookup o.id == some 1
    kahn g tasks fuel ((q ++ newly).mergeSort (qLe g)) deg' (acc ++ [t])

/-- `topoSortTasks` -/
def topoSort (g : Graph) (tasks : List Task) : List Task :=
  let deg := tasks.map fun t => (t.id, inDegree g tasks t)
  let q0 := (tasks.filter fun t => inDegree g tasks t == 0).mergeSort (qLe g)
  kahn g tasks tasks.length q0 deg []

/-! ### which rows each view shows -/
inductive View where | all | active | ready
  deriving DecidableEq, Repr, Inhabited

structure Row where
  id    : Id
  child : Bool          -- rendered under an epic, with a tree glyph
  last  : Bool          -- └ instead of ├
  deriving DecidableEq, Repr, Inhabited

def childrenOf (g : Graph) (e : Id) : List Task := topoSort g (g.tasks.filter fun t => !t.isEpic && t.epicId != "" && t.epicId == e)

/-- `derivedEpicState` ∈ {empty, canceled, done, active} decides whether the default view keeps an epic -/
def epicHidden (kids : List Task) : Bool := !kids.isEmpty && kids.all fun k => k.st.closed

def kidsShown (g : Graph) (v : View) (kids : List Task) : List Task :=
  match v with
  | .all => kids
  | .active => kids.filter fun (k : Task) => k.st != St.canceled
  | .ready => kids.filter (isReady g)

/-- `buildListRoots` (no --epic) flattened into rows: orphan tasks first, then every epic with its children -/
def rows (g : Graph) (v : View) : List Row :=
  let orphans0 : List Task := topoSort g (g.tasks.filter fun t => !t.isEpic && t.epicId == "")
  let orphans : List Task := match v with
    | .all => orphans0
    | .active => orphans0.filter fun (t : Task) => t.st != St.canceled && t.st != St.done
    | .ready => orphans0.filter (isReady g)
  let epics := topoSort g (g.tasks.filter (·.isEpic))
  let epicRows := epics.flatMap fun e =>
    let kids := childrenOf g e.id
    let shown := kidsShown g v kids
    let keep := match v with
      | .all => true
      | .active => !epicHidden kids
      | .ready => !shown.isEmpty
    if !keep then []
    else { id := e.id, child := false, last := false : Row } ::
         shown.zipIdx.map fun (k, i) => { id := k.id, child := true, last := i + 1 == shown.length }
  (orphans.map fun (t : Task) => ({ id := t.id, child := false, last := false } : Row)) ++ epicRows

/-- summary buckets of `computeStatsForTasks`: (ready, inProgress, blocked, errors, done, canceled) -/
def stats (g : Graph) (tasks : List Task) : Nat × Nat × Nat × Nat × Nat × Nat :=
  let ts := tasks.filter (!·.isEpic)
  (ts.countP fun t => t.st == .todo && isReady g t,
   ts.countP fun t => t.st == .doing,
   ts.countP fun t => t.st == .blocked || (t.st == .todo && !isReady g t) || !t.st.valid,
   ts.countP fun t => t.st == .error,
   ts.countP fun t => t.st == .done,
   ts.countP fun t => t.st == .canceled)

end Ergo.Render
