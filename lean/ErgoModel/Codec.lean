/-
  ErgoModel.Codec — one line of the log, byte for byte.

  `encodeEvent` is what `json.Marshal(Event{Type, TS, Data})` writes for the events the commands produce (`newEvent`: the payload
  struct marshalled first, then embedded as `json.RawMessage`); `classifyLine` is what `readEvents` (`bytes.TrimSpace` +
  `json.Unmarshal(&Event)`) and then `replayEvents` (`json.Unmarshal(event.Data, &payload)`, `parseTime`) make of a line:

  * UTF-8 (`utf8Enc`, `utf8DecLossy`: an invalid byte decodes to U+FFFD and one byte is consumed, as `utf8.DecodeRune` does);
  * the JSON grammar as `encoding/json`'s scanner accepts it (`scanStr`, `scanNumber`, `skipValue`/`members`/`elems`: white space,
    escapes, number syntax, nesting limit 10000), used to delimit the members of an object and their raw values;
  * decoding into a struct whose fields are strings or a `json.RawMessage` (`getStr`, `getRaw`): keys match exactly or under Go's
    case folding (ASCII case, U+212A KELVIN SIGN ~ k, U+017F LONG S ~ s), a later member overrides an earlier one, `null` leaves a
    string field alone, any other non-string value for a string field is an error (the line is then bad / the payload `badData`),
    unknown keys are skipped, a top-level `null` decodes to the zero value, any other non-object is an error;
  * `bytes.TrimSpace` on bytes (`trimSpaceB`).

  The string codec itself (escapes, surrogates) is `ErgoModel.Json`; time stamps are `ErgoModel.Time`.
-/
import ErgoModel.Json
import ErgoModel.Time
import ErgoModel.Storage
namespace Ergo.Codec
open Ergo.Storage (Bytes LineClass)

/-! ### UTF-8 -/
def utf8Enc (cs : List Char) : Bytes := cs.flatMap String.utf8EncodeChar

/-- `utf8.DecodeRune` on the first (at most four) bytes: `none` = invalid or incomplete -/
def decodeRune? (l : Bytes) : Option Char := (l.take 4).toByteArray.utf8DecodeChar? 0

def replacement : Char := Char.ofNat 0xFFFD

/-- bytes to text the way `unquote` (and `string(bytes)` followed by range-over-runes) sees them -/
def utf8DecLossy : Bytes → List Char
  | [] => []
  | b :: rest =>
    if b < 128 then Char.ofNat b.toNat :: utf8DecLossy rest
    else match decodeRune? (b :: rest) with
      | some c => c :: utf8DecLossy (rest.drop (c.utf8Size - 1))
      | none => replacement :: utf8DecLossy rest
termination_by l => l.length
decreasing_by all_goals simp_wf <;> omega

/-! ### JSON tokens -/
def isWs (b : UInt8) : Bool := b = 32 ∨ b = 9 ∨ b = 13 ∨ b = 10

def skipWs : Bytes → Bytes
  | [] => []
  | b :: r => if isWs b then skipWs r else b :: r

def isHex (b : UInt8) : Bool := (48 ≤ b ∧ b ≤ 57) ∨ (97 ≤ b ∧ b ≤ 102) ∨ (65 ≤ b ∧ b ≤ 70)
def isDigit (b : UInt8) : Bool := 48 ≤ b ∧ b ≤ 57
/-- the characters that may follow a backslash other than `u`: `" \ / b f n r t` -/
def isSimpleEscape (b : UInt8) : Bool := b = 34 ∨ b = 92 ∨ b = 47 ∨ b = 98 ∨ b = 102 ∨ b = 110 ∨ b = 114 ∨ b = 116

/-- the rest of a string literal after its opening quote: the raw text between the quotes and what follows the closing quote -/
def scanStr : Bytes → Option (Bytes × Bytes)
  | [] => none
  | b :: rest =>
    if b = 34 then some ([], rest)
    else if b = 92 then
      match rest with
      | [] => none
      | c :: r =>
        if c = 117 then
          match r with
          | h1 :: h2 :: h3 :: h4 :: r' =>
            if isHex h1 && isHex h2 && isHex h3 && isHex h4 then
              (scanStr r').map fun p => (92 :: 117 :: h1 :: h2 :: h3 :: h4 :: p.1, p.2)
            else none
          | _ => none
        else if isSimpleEscape c then (scanStr r).map fun p => (92 :: c :: p.1, p.2)
        else none
    else if b < 32 then none
    else (scanStr rest).map fun p => (b :: p.1, p.2)
termination_by l => l.length
decreasing_by all_goals simp_wf <;> omega

def skipDigits : Bytes → Bytes
  | [] => []
  | b :: r => if isDigit b then skipDigits r else b :: r

/-- exponent part, then done -/
def scanExp (r : Bytes) : Option Bytes :=
  match r with
  | [] => some []
  | e :: r' =>
    if e = 101 ∨ e = 69 then
      let r'' := match r' with
        | [] => []
        | s :: x => if s = 43 ∨ s = 45 then x else s :: x
      match r'' with
      | [] => none
      | d :: y => if isDigit d then some (skipDigits y) else none
    else some (e :: r')

/-- fraction part, then exponent -/
def scanFrac (r : Bytes) : Option Bytes :=
  match r with
  | [] => some []
  | p :: r' =>
    if p = 46 then
      match r' with
      | [] => none
      | d :: y => if isDigit d then scanExp (skipDigits y) else none
    else scanExp (p :: r')

/-- a JSON number: `-?(0|[1-9][0-9]*)(\.[0-9]+)?([eE][+-]?[0-9]+)?`; returns what follows it -/
def scanNumber (s : Bytes) : Option Bytes :=
  let s1 := match s with
    | [] => []
    | m :: r => if m = 45 then r else m :: r
  match s1 with
  | [] => none
  | d :: r =>
    if d = 48 then scanFrac r
    else if 49 ≤ d ∧ d ≤ 57 then scanFrac (skipDigits r)
    else none

/-- the remaining letters of `true` / `false` / `null` -/
def lit : Bytes → Bytes → Option Bytes
  | [], r => some r
  | _ :: _, [] => none
  | c :: cs, b :: r => if b = c then lit cs r else none

mutual
/-- one JSON value starting at the first byte (no leading white space): what follows it.  `d` = how many more levels of
    `{`/`[` may be opened (`encoding/json` refuses more than 10000) -/
def skipValue : Nat → Nat → Bytes → Option Bytes
  | 0, _, _ => none
  | _, _, [] => none
  | f + 1, d, b :: r =>
    if b = 123 then
      match d with
      | 0 => none
      | d + 1 =>
        match skipWs r with
        | [] => none
        | c :: r' => if c = 125 then some r' else (members f d (c :: r')).map (·.2)
    else if b = 91 then
      match d with
      | 0 => none
      | d + 1 =>
        match skipWs r with
        | [] => none
        | c :: r' => if c = 93 then some r' else elems f d (c :: r')
    else if b = 34 then (scanStr r).map (·.2)
    else if b = 116 then lit [114, 117, 101] r
    else if b = 102 then lit [97, 108, 115, 101] r
    else if b = 110 then lit [117, 108, 108] r
    else scanNumber (b :: r)

/-- the members of an object after `{` or `,`: `"key" : value` then `,` (more) or `}`; returns (raw key, raw value) pairs
    and what follows the closing brace -/
def members : Nat → Nat → Bytes → Option (List (Bytes × Bytes) × Bytes)
  | 0, _, _ => none
  | f + 1, d, s =>
    match skipWs s with
    | [] => none
    | q :: r =>
      if q ≠ 34 then none else
      match scanStr r with
      | none => none
      | some (k, r1) =>
        match skipWs r1 with
        | [] => none
        | c :: r2 =>
          if c ≠ 58 then none else
          match skipValue f d (skipWs r2) with
          | none => none
          | some r3 =>
            let raw := (skipWs r2).take ((skipWs r2).length - r3.length)
            match skipWs r3 with
            | [] => none
            | e :: r4 =>
              if e = 44 then (members f d r4).map fun p => ((k, raw) :: p.1, p.2)
              else if e = 125 then some ([(k, raw)], r4)
              else none

/-- the elements of an array after `[` or `,` -/
def elems : Nat → Nat → Bytes → Option Bytes
  | 0, _, _ => none
  | f + 1, d, s =>
    match skipValue f d (skipWs s) with
    | none => none
    | some r3 =>
      match skipWs r3 with
      | [] => none
      | e :: r4 =>
        if e = 44 then elems f d r4
        else if e = 93 then some r4
        else none
end

/-- more than any line the reader admits (10 MiB): every call consumes at least one byte -/
def FUEL : Nat := 16777216
/-- `maxNestingDepth` -/
def DEPTH : Nat := 10000

/-- what `json.Unmarshal(text, &aStruct)` sees at the top -/
inductive Top where
  | obj (ms : List (Bytes × Bytes))
  | null
  | err         -- not valid JSON, or a value that is neither an object nor `null`
  deriving DecidableEq, Repr, Inhabited

def parseTop (s : Bytes) : Top :=
  match skipWs s with
  | [] => .err
  | b :: r =>
    if b = 123 then
      match skipWs r with
      | [] => .err
      | c :: r' =>
        if c = 125 then (if skipWs r' = [] then .obj [] else .err)
        else match members FUEL (DEPTH - 1) (c :: r') with
          | some (ms, rest) => if skipWs rest = [] then .obj ms else .err
          | none => .err
    else if b = 110 then
      match lit [117, 108, 108] r with
      | some rest => if skipWs rest = [] then .null else .err
      | none => .err
    else .err

/-! ### decoding into struct fields -/
/-- text of a raw string body (the bytes between the quotes) -/
def unquote (raw : Bytes) : List Char := (Json.decodeBody (utf8DecLossy raw)).getD []

/-- Go's `foldRune` restricted to what can reach an ASCII letter: upper case, KELVIN SIGN, LONG S -/
def foldChar (c : Char) : Char :=
  if 65 ≤ c.toNat ∧ c.toNat ≤ 90 then Char.ofNat (c.toNat + 32)
  else if c.toNat = 0x212A then 'k'
  else if c.toNat = 0x17F then 's'
  else c

def keyMatches (rawKey : Bytes) (name : String) : Bool := (unquote rawKey).map foldChar = name.toList.map foldChar

inductive ValKind where
  | str | null | other
  deriving DecidableEq, Repr

def valKind : Bytes → ValKind
  | [] => .other
  | b :: _ => if b = 34 then .str else if b = 110 then .null else .other

/-- text of a raw string *value* (with its quotes) -/
def strVal (raw : Bytes) : String := String.ofList (unquote ((raw.drop 1).dropLast))

/-- a string field: `none` = some member for this field had a value that is neither a string nor `null` -/
def getStr (ms : List (Bytes × Bytes)) (name : String) : Option String :=
  ms.foldl (fun acc m =>
    match acc with
    | none => none
    | some cur =>
      if keyMatches m.1 name then
        match valKind m.2 with
        | .str => some (strVal m.2)
        | .null => some cur
        | .other => none
      else some cur) (some "")

/-- a `json.RawMessage` field: the raw text of the last member with this key -/
def getRaw (ms : List (Bytes × Bytes)) (name : String) : Option Bytes :=
  ms.foldl (fun acc m => if keyMatches m.1 name then some m.2 else acc) none

/-! ### `bytes.TrimSpace` -/
/-- UTF-8 encodings of the non-ASCII characters of `unicode.IsSpace` -/
def wideSpaces : List Bytes :=
  [[0xC2, 0x85], [0xC2, 0xA0], [0xE1, 0x9A, 0x80],
   [0xE2, 0x80, 0x80], [0xE2, 0x80, 0x81], [0xE2, 0x80, 0x82], [0xE2, 0x80, 0x83], [0xE2, 0x80, 0x84], [0xE2, 0x80, 0x85],
   [0xE2, 0x80, 0x86], [0xE2, 0x80, 0x87], [0xE2, 0x80, 0x88], [0xE2, 0x80, 0x89], [0xE2, 0x80, 0x8A],
   [0xE2, 0x80, 0xA8], [0xE2, 0x80, 0xA9], [0xE2, 0x80, 0xAF], [0xE2, 0x81, 0x9F], [0xE3, 0x80, 0x80]]

def isAsciiSpace (b : UInt8) : Bool := b = 32 ∨ (9 ≤ b ∧ b ≤ 13)

/-- strip leading white space given the table of multi-byte spaces (as they appear reading in this direction) -/
def stripSpaces (table : List Bytes) : Nat → Bytes → Bytes
  | 0, s => s
  | _, [] => []
  | f + 1, b :: r =>
    if isAsciiSpace b then stripSpaces table f r
    else match table.find? (fun w => w.isPrefixOf (b :: r)) with
      | some w => stripSpaces table f ((b :: r).drop w.length)
      | none => b :: r

def trimLeftB (s : Bytes) : Bytes := stripSpaces wideSpaces (s.length + 1) s
def trimRightB (s : Bytes) : Bytes := (stripSpaces (wideSpaces.map List.reverse) (s.length + 1) s.reverse).reverse
def trimSpaceB (s : Bytes) : Bytes := trimRightB (trimLeftB s)

/-! ### events -/
def optTime (s : String) : Option Time := Time.parseS s

/-- payload members: `none` = `json.Unmarshal(event.Data, &payload)` fails -/
def payloadOf (data : Option Bytes) : Option (List (Bytes × Bytes)) :=
  match data with
  | none => none                         -- no `data` member: Unmarshal of empty input
  | some raw =>
    match parseTop raw with
    | .obj ms => some ms
    | .null => some []
    | .err => none

/-- all the named string fields, or `none` -/
def getStrs (ms : List (Bytes × Bytes)) (names : List String) : Option (List String) := names.mapM (getStr ms)

/-- what `replayEvents` makes of the decoded envelope -/
def interp (type : String) (data : Option Bytes) : Event :=
  let withFields (names : List String) (k : List String → Event) : Event :=
    match payloadOf data with
    | none => .badData
    | some ms => match getStrs ms names with
      | none => .badData
      | some vs => k vs
  if type = "new_task" ∨ type = "new_epic" then
    withFields ["id", "uuid", "epic_id", "state", "title", "body", "created_at"] fun
      | [id, uuid, epic, st, title, body, cat] => .newItem (type = "new_epic") id uuid epic (St.ofString st) title body (optTime cat)
      | _ => .badData
  else if type = "state" then
    withFields ["id", "state", "ts"] fun | [id, st, ts] => .state id (St.ofString st) (optTime ts) | _ => .badData
  else if type = "claim" then
    withFields ["id", "agent_id", "ts"] fun | [id, a, ts] => .claim id a (optTime ts) | _ => .badData
  else if type = "unclaim" then
    withFields ["id", "ts"] fun | [id, _] => .unclaim id | _ => .badData
  else if type = "link" then
    withFields ["from_id", "to_id", "type"] fun | [f, t, ty] => .link f t (ty = "depends") | _ => .badData
  else if type = "unlink" then
    withFields ["from_id", "to_id", "type"] fun | [f, t, ty] => .unlink f t (ty = "depends") | _ => .badData
  else if type = "title" then
    withFields ["id", "title", "ts"] fun | [id, t, ts] => .title id t (optTime ts) | _ => .badData
  else if type = "body" then
    withFields ["id", "body", "ts"] fun | [id, b, ts] => .body id b (optTime ts) | _ => .badData
  else if type = "epic" then
    withFields ["id", "epic_id", "ts"] fun | [id, e, ts] => .epic id e (optTime ts) | _ => .badData
  else if type = "tombstone" then
    withFields ["id", "agent_id", "ts"] fun | [id, a, ts] => .tombstone id a (optTime ts) | _ => .badData
  else if type = "result" then
    withFields ["task_id", "summary", "path", "sha256_at_attach", "mtime_at_attach", "git_commit_at_attach", "ts"] fun
      | [id, s, p, sha, m, g, ts] => .result id s p sha m g (optTime ts)
      | _ => .badData
  else .ignored

/-- `readEvents`' `processLine` followed by replay's view of the event -/
def classifyLine (line : Bytes) : LineClass :=
  let t := trimSpaceB line
  if t = [] then .blank
  else match parseTop t with
    | .err => .bad
    | .null => .ev .ignored                       -- the zero Event: type ""
    | .obj ms =>
      match getStr ms "type", getStr ms "ts" with
      | some ty, some _ => .ev (interp ty (getRaw ms "data"))
      | _, _ => .bad

/-! ### encoding -/
/-- `json.Marshal` of a string (HTML escaping on) -/
def encStr (s : String) : Bytes := utf8Enc (Json.encodeString true s.toList)

def joinComma : List Bytes → Bytes
  | [] => []
  | [x] => x
  | x :: xs => x ++ 44 :: joinComma xs

/-- an object whose values are already encoded -/
def encObj (kvs : List (String × Bytes)) : Bytes := 123 :: joinComma (kvs.map fun kv => encStr kv.1 ++ 58 :: kv.2) ++ [125]

/-- a struct of string fields; `omitempty` fields are flagged -/
def encFields (fs : List (String × String × Bool)) : Bytes :=
  encObj ((fs.filter fun f => !(f.2.2 && f.2.1 = "")).map fun f => (f.1, encStr f.2.1))

def timeText : Option Time → String
  | some t => Time.formatS t
  | none => ""

def linkType (dep : Bool) : String := if dep then "depends" else ""

/-- type string and `data` text of an event; `ets` is the envelope time stamp where the payload has none of its own in the model -/
def wireOf (ets : String) : Event → String × Bytes
  | .newItem isEpic id uuid epic st title body cat =>
    (if isEpic then "new_epic" else "new_task",
     encFields [("id", id, false), ("uuid", uuid, false), ("epic_id", epic, false), ("state", st.toString, false),
                ("title", title, false), ("body", body, false), ("created_at", timeText cat, false)])
  | .state id st ts => ("state", encFields [("id", id, false), ("state", st.toString, false), ("ts", timeText ts, false)])
  | .claim id a ts => ("claim", encFields [("id", id, false), ("agent_id", a, false), ("ts", timeText ts, false)])
  | .unclaim id => ("unclaim", encFields [("id", id, false), ("ts", ets, false)])
  | .link f t dep => ("link", encFields [("from_id", f, false), ("to_id", t, false), ("type", linkType dep, false)])
  | .unlink f t dep => ("unlink", encFields [("from_id", f, false), ("to_id", t, false), ("type", linkType dep, false)])
  | .title id t ts => ("title", encFields [("id", id, false), ("title", t, false), ("ts", timeText ts, false)])
  | .body id b ts => ("body", encFields [("id", id, false), ("body", b, false), ("ts", timeText ts, false)])
  | .epic id e ts => ("epic", encFields [("id", id, false), ("epic_id", e, false), ("ts", timeText ts, false)])
  | .tombstone id a ts => ("tombstone", encFields [("id", id, false), ("agent_id", a, true), ("ts", timeText ts, false)])
  | .result id s p sha m g ts =>
    ("result", encFields [("task_id", id, false), ("summary", s, false), ("path", p, false), ("sha256_at_attach", sha, false),
                          ("mtime_at_attach", m, true), ("git_commit_at_attach", g, true), ("ts", timeText ts, false)])
  | .ignored => ("", [110, 117, 108, 108])                      -- an unknown type; `data` null
  | .badData => ("state", [34, 34])                              -- a known type whose `data` is not an object

/-- the line `json.Marshal(event)` produces (without the newline) -/
def encodeEvent (ets : Event → String) (e : Event) : Bytes :=
  let w := wireOf (ets e) e
  encObj [("type", encStr w.1), ("ts", encStr (ets e)), ("data", w.2)]

end Ergo.Codec
