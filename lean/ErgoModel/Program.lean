/-
  ErgoModel.Program — the system-call program of one ergo process on the store's files, as strace reports it (T3), and the
  shape every program must have for the process model (ErgoModel.Proc) to be an abstraction of it.

  A writer's program is:   open(lock) · flock(EX|NB) · [ body ] · flock(UN) · close(lock)
  where the body, entirely inside the lock section, reads the log (at least once, before any write) and then either
    * appends: open(log, O_APPEND) · read(log)* (tail check) · exactly one write(log) · close,           or
    * rewrites: open(tmp) · write(tmp)+ · fsync(tmp) · close(tmp) · rename(tmp → log) · open(dir) · fsync(dir) · close(dir),  or
    * repairs a torn tail by a rewrite and then appends (both of the above, in that order),               or
    * writes nothing (the decision was an error, or there was nothing to do);
  a refused lock (`flock` = EWOULDBLOCK) is followed by no read and no write at all; a reader never calls flock,
  opens the log once, read-only, and only reads.
-/
namespace Ergo.Program

inductive Obj where | lock | log | tmp | dir
  deriving DecidableEq, Repr, Inhabited

inductive Call where
  | openRO (o : Obj)            -- O_RDONLY (the lock file is opened O_RDONLY|O_CREAT)
  | openAppend                  -- open(log, O_APPEND|O_CREAT|O_RDWR)
  | openTmp                     -- open(tmp, O_CREAT|O_TRUNC|O_WRONLY)
  | flockEx (ok : Bool)         -- flock(LOCK_EX|LOCK_NB); ok = false: EWOULDBLOCK
  | flockUn
  | read (o : Obj)
  | write (o : Obj)
  | fsync (o : Obj)
  | rename                      -- rename(tmp, log)
  | renameLock                  -- rename(anything, lock): the name of the lock file given to another file
  | truncate (o : Obj)          -- ftruncate
  | unlink (o : Obj)
  | close (o : Obj)
  | openBad                     -- an open that breaks the file discipline of ErgoModel.Files: the temporary file without O_TRUNC (a stale one
                                -- would shine through), or the log opened for writing without O_APPEND (a write would land at the descriptor's offset)
  | other                       -- anything else on the store's files
  deriving DecidableEq, Repr, Inhabited

/-- does this call change the log (its bytes or which file the name points to)? -/
def mutatesLog : Call → Bool
  | .write .log | .rename | .truncate .log | .unlink .log => true
  | _ => false

/-- does this call give the lock's *name* to another file, or take it away?  Two processes are excluded from one another only as long as
    `.ergo/lock` names one and the same file for both: a missing lock file may be created (`open … O_CREAT`), never replaced or removed -/
def mutatesLock : Call → Bool
  | .renameLock | .unlink .lock | .truncate .lock => true
  | _ => false

/-- an open without the flag the results of `ErgoModel.Files` depend on (`FilesThm.rewrite_without_trunc_keeps_stale_bytes`,
    `appendUnterminated_without_append_clobbers`) -/
def undisciplined : Call → Bool
  | .openBad => true
  | _ => false

/-- neither the lock's name nor the open flags are tampered with -/
def breaksDiscipline (c : Call) : Bool := mutatesLock c || undisciplined c

/-- does this call look at the log's content? -/
def readsLog : Call → Bool
  | .read .log => true
  | _ => false

def isLock : Call → Bool
  | .flockEx _ => true
  | _ => false

/-- the calls strictly between the successful lock and the unlock, and what comes before / after -/
structure Split where
  before : List Call
  inside : List Call
  after  : List Call
  deriving Repr

/-- split a program at its first `flock(EX)=0` and the first `flock(UN)` after it -/
def split (p : List Call) : Option Split :=
  match p.span (fun c => c != .flockEx true) with
  | (pre, _ :: rest) =>
    (match rest.span (fun c => c != .flockUn) with
     | (ins, _ :: post) => some ⟨pre, ins, post⟩
     | _ => none)
  | _ => none

/-- exactly one write to the log among these calls, or none -/
def logWrites (cs : List Call) : Nat := (cs.filter (· == .write .log)).length

/-- the lock section's body: reads before anything that changes the log; at most one write to the live log; a rename only after the
    temporary file was written and synced; no in-place truncation (that is allowed only after a failed write, which these programs are not) -/
def bodyOK (ins : List Call) : Bool :=
  -- something is read before the first mutation, if there is a mutation
  (match ins.span (fun c => !mutatesLog c) with
   | (pre, _ :: _) => pre.any readsLog
   | (_, []) => true) &&
  logWrites ins ≤ 1 &&
  !ins.contains (.truncate .log) && !ins.contains (.unlink .log) &&
  -- every rename is preceded by write(tmp) and fsync(tmp)
  (match ins.span (· != .rename) with
   | (pre, _ :: _) => pre.contains (.write .tmp) && pre.contains (.fsync .tmp)
   | (_, []) => true) &&
  !ins.any isLock && !ins.contains .flockUn

/-- a writer that got the lock -/
def writerOK (p : List Call) : Bool :=
  !p.any breaksDiscipline &&
  match split p with
  | none => false
  | some s =>
    !s.before.any (fun c => mutatesLog c || readsLog c || c == .flockUn || isLock c) &&
    bodyOK s.inside &&
    !s.after.any (fun c => mutatesLog c || isLock c || c == .flockUn || c == .write .tmp)

/-- a writer that found the lock taken: it neither reads nor changes anything -/
def busyOK (p : List Call) : Bool :=
  !p.any breaksDiscipline && p.contains (.flockEx false) && !p.contains (.flockEx true) &&
  !p.any (fun c => mutatesLog c || readsLog c || c == .write .tmp || c == .flockUn)

/-- a reader: no lock call at all, the log opened exactly once read-only, nothing changed -/
def readerOK (p : List Call) : Bool :=
  !p.any breaksDiscipline && !p.any isLock && !p.contains .flockUn &&
  (p.filter (· == .openRO .log)).length ≤ 1 && !p.contains .openAppend && !p.contains .openTmp &&
  !p.any (fun c => mutatesLog c || c == .write .tmp || c == .write .lock)

/-! ### the abstraction to the process model's steps -/
inductive Abs where
  | lockOk | lockBusy | read | write | noWrite | unlock
  deriving DecidableEq, Repr

/-- what `Proc.Step`s a writer's program amounts to -/
def abstract (p : List Call) : List Abs :=
  if p.contains (.flockEx true) then
    match split p with
    | some s =>
      [.lockOk] ++ (if s.inside.any readsLog then [.read] else []) ++
        (if s.inside.any mutatesLog then [.write] else [.noWrite]) ++ [.unlock]
    | none => [.lockOk]
  else if p.contains (.flockEx false) then [.lockBusy] else []

end Ergo.Program
