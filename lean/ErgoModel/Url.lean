/-
  ErgoModel.Url — `deriveFileURL` (output.go): the `file://` URL printed for a result,
      url.URL{Scheme: "file", Path: filepath.Join(repoDir, relPath)}.String()
  i.e. "file://" followed by the path escaped the way net/url escapes a path (`escape(s, encodePath)`):
  ASCII letters, digits, `-_.~` and `$&+,/:;=@` stay, every other byte of the UTF-8 encoding becomes %XX (upper-case hex).
-/
import ErgoModel.Path
namespace Ergo.Url
open Ergo.Path

abbrev Bytes := List UInt8

def isAlnum (b : UInt8) : Bool :=
  (48 ≤ b && b ≤ 57) || (65 ≤ b && b ≤ 90) || (97 ≤ b && b ≤ 122)

/-- `!shouldEscape(c, encodePath)` -/
def safeByte (b : UInt8) : Bool :=
  isAlnum b || b == 45 || b == 95 || b == 46 || b == 126 ||                       -- - _ . ~
  b == 36 || b == 38 || b == 43 || b == 44 || b == 47 || b == 58 || b == 59 || b == 61 || b == 64   -- $ & + , / : ; = @

/-- "0123456789ABCDEF"[n] -/
def hexDigit (n : UInt8) : UInt8 := if n < 10 then 48 + n else 55 + n

def escByte (b : UInt8) : Bytes := if safeByte b then [b] else [37, hexDigit (b >>> 4), hexDigit (b &&& 15)]

def escapePath (bs : Bytes) : Bytes := bs.flatMap escByte

def unhex (c : UInt8) : Option UInt8 :=
  if 48 ≤ c && c ≤ 57 then some (c - 48) else if 65 ≤ c && c ≤ 70 then some (c - 55) else none

/-- the inverse net/url applies when it parses the URL again -/
def unescape : Bytes → Option Bytes
  | [] => some []
  | 37 :: h :: l :: rest =>
    match unhex h, unhex l, unescape rest with
    | some a, some b, some r => some ((a <<< 4 ||| b) :: r)
    | _, _, _ => none
  | b :: rest => if b == 37 then none else (unescape rest).map (b :: ·)

def utf8 (p : P) : Bytes := (String.ofList p).toUTF8.toList

/-- "file://" -/
def scheme : Bytes := [102, 105, 108, 101, 58, 47, 47]

/-- the path `deriveFileURL` escapes: Join, every backslash turned into a slash, and a leading slash put before a drive letter -/
def urlPath (repo rel : P) : P :=
  let a := (join [repo, rel]).map fun c => if c == '\\' then '/' else c
  if a.length ≥ 2 && a[1]? == some ':' && a.head? != some '/' then '/' :: a else a

/-- `deriveFileURL(relPath, repoDir)` -/
def fileURL (repo rel : P) : Bytes := scheme ++ escapePath (utf8 (urlPath repo rel))

end Ergo.Url
