/-
  ErgoModel.View — what the commands *say*: the JSON values of `list`, `show` and of every mutating command
  (output.go, RunList/RunShow/RunSet/RunClaim/RunClaimOldestReady/RunSequence/RunPrune/RunCompact,
  createTaskWithDir's createOutput, RunPlan's planOutput).  Values are structures; the JSON text is the
  harness's business (key order and escaping are `encoding/json`'s, modelled and proved in Json.lean for strings).

  A mutating command's reply is computed from what the real code computes it from:
    * `new`    — the payload it wrote, with `state` taken from a replay of *its own events only*;
    * `set`, `claim <id>` — a fresh, unlocked read of the log after the write;
    * `claim` (oldest ready) — the task chosen inside the lock section and the section's clock reading;
    * `sequence`, `prune`, `compact`, `plan` — the request / the section's decision.
-/
import ErgoModel.Exec
import ErgoModel.Render
namespace Ergo

/-! ### `list --json` -/
structure ListItem where
  isEpic     : Bool
  id         : Id
  epicId     : Id
  st         : St
  claimedBy  : String
  title      : String
  ready      : Bool
  blocked    : Bool
  hasResults : Bool
  deriving DecidableEq, Repr, Inhabited

def listItem (g : Graph) (t : Task) : ListItem :=
  { isEpic := t.isEpic, id := t.id, epicId := t.epicId, st := t.st, claimedBy := t.claimedBy, title := t.title,
    ready := isReady g t, blocked := isBlocked g t, hasResults := !t.results.isEmpty }

/-- `listTasks`: every item (epics too) of the epic filter, optionally ready only, by id -/
def listTasks (g : Graph) (epicId : Id) (readyOnly : Bool) : List Task :=
  (g.tasks.filter fun t => (epicId == "" || t.epicId == epicId) && (!readyOnly || isReady g t)).mergeSort taskIdLe

/-- `sortByCreatedAt` (ties by id) -/
def createdLe (a b : Task) : Bool := decide (a.createdAt < b.createdAt) || (a.createdAt == b.createdAt && strLe a.id b.id)

structure ListOpts where
  epicId    : Id := ""
  readyOnly : Bool := false
  showAll   : Bool := false
  showEpics : Bool := false
  deriving DecidableEq, Repr, Inhabited

/-- the array `list --json` prints -/
def listJson (g : Graph) (o : ListOpts) : List ListItem :=
  if o.showEpics then
    ((g.tasks.filter fun t => t.isEpic && (o.epicId == "" || t.epicId == o.epicId)).mergeSort createdLe).map (listItem g)
  else
    let ts := (listTasks g o.epicId o.readyOnly).filter fun t => !t.isEpic
    let ts := if !o.showAll && !o.readyOnly then ts.filter fun t => !t.st.closed else ts
    ts.map (listItem g)

/-! ### `show --json` -/
structure ShowItem where
  id        : Id
  uuid      : String
  epicId    : Id
  st        : St
  claimedBy : String
  claimedAt : Time          -- 0 = printed as ""
  createdAt : Time
  updatedAt : Time
  deps      : List Id
  rdeps     : List Id
  title     : String
  body      : String
  results   : List ResultRec
  deriving DecidableEq, Repr, Inhabited

/-- `claimedAtForTask` -/
def claimedAt (t : Task) : Time := if t.claimedBy == "" then 0 else t.lastClaim

def showItem (g : Graph) (t : Task) : ShowItem :=
  { id := t.id, uuid := t.uuid, epicId := t.epicId, st := t.st, claimedBy := t.claimedBy, claimedAt := claimedAt t,
    createdAt := t.createdAt, updatedAt := t.updatedAt, deps := sortIds (g.depsOf t.id), rdeps := sortIds (g.rdepsOf t.id),
    title := t.title, body := t.body, results := t.results }

inductive ShowOut where
  | item (i : ShowItem)
  | epic (e : ShowItem) (children : List ShowItem)     -- an epic that has children
  deriving DecidableEq, Repr, Inhabited

/-- `collectEpicChildren`: the epic's tasks in dependency order -/
def epicChildren (g : Graph) (e : Id) : List Task := Render.topoSort g (g.tasks.filter fun t => !t.isEpic && t.epicId == e)

def showJson (g : Graph) (id : Id) : Except CmdErr ShowOut :=
  if g.tombed id then .error (.pruned id)
  else match g.find? id with
    | none => .error (.unknownTask id)
    | some t =>
      let kids := if t.isEpic then epicChildren g id else []
      if t.isEpic && !kids.isEmpty then .ok (.epic (showItem g t) (kids.map (showItem g)))
      else .ok (.item (showItem g t))

/-! ### replies of the mutating commands -/
inductive Reply where
  | created (isEpic : Bool) (id uuid epicId : Id) (st : St) (title body : String) (createdAt : Time)
  | set (id : Id) (fields : List String) (st : St) (claimedBy : String)
  | claimed (id epic : Id) (st : St) (title body agent : String) (claimedAt : Time)
  | noReady
  | sequence (unlink : Bool) (edges : List (Id × Id))         -- (from, to) as printed
  | pruned (dryRun : Bool) (ids : List Id)
  | compacted
  | planned (o : PlanOut)
  deriving Repr, Inhabited

/-- `updated_fields` of `set --json`, per input mode -/
def updatedFields (i : RawInput) : List String :=
  let f := i.flags
  let flag (b : Bool) (s : String) := if b then [s] else []
  if i.bodyStdin then
    ["body"] ++ flag (Text.trimSpace f.title != "") "title" ++ flag (f.epic != "") "epic" ++ flag (f.state != "") "state" ++
      flag (f.claim != "") "claim" ++ flag (f.resultPath != "") "result_path" ++ flag (f.resultSummary != "") "result_summary"
  else if !i.piped && setHasFlagInput f then
    flag (Text.trimSpace f.title != "") "title" ++ flag (f.body != "") "body" ++ flag (f.epic != "") "epic" ++ flag (f.state != "") "state" ++
      flag (f.claim != "") "claim" ++ flag (f.resultPath != "") "result_path" ++ flag (f.resultSummary != "") "result_summary"
  else match i.json with
    | none => []
    | some t =>
      flag t.title.isSome "title" ++ flag t.body.isSome "body" ++ flag t.epic.isSome "epic" ++ flag t.state.isSome "state" ++
        flag t.claim.isSome "claim" ++ flag t.resultPath.isSome "result_path" ++ flag t.resultSummary.isSome "result_summary"

/-- the events a command appended (for `new`: the item's own events, which the reply's `state` is replayed from) -/
def Write.appended : Write → List Event
  | .append evs => evs
  | .replace _ => []

/-- the value printed on stdout (with `--json`) by a command that succeeded; `none` = internal error paths
    (`unknown task id` after a successful write — unreachable when the write was accepted, proved in Props/C16) -/
def replyOf (env : Env) (req : Request) (res : CmdResult) : Option Reply :=
  match res.err with
  | some _ => none
  | none =>
    match req with
    | .newTask _ | .newEpic _ =>
      (match res.write, res.out.created with
       | some w, some id =>
         (match w.appended.head? with
          | some (.newItem isEpic id' uuid epicId _ title body cat) =>
            -- state: replay of the command's own events, `todo` if that replay fails
            let st := match replayRaw w.appended with
              | .ok g => (match g.find? id with | some t => t.st | none => .todo)
              | .error _ => .todo
            some (.created isEpic id' uuid epicId st title body (cat.getD 0))
          | _ => none)
       | _, _ => none)
    | .set id i =>
      (match replay res.log with
       | .ok g => (g.find? id).map fun t => .set id (updatedFields i) t.st t.claimedBy
       | .error _ => none)
    | .claim id =>
      (match replay res.log with
       | .ok g => (g.find? id).map fun t => .claimed t.id t.epicId t.st t.title t.body env.agent (claimedAt t)
       | .error _ => none)
    | .claimOldest _ =>
      (match res.write, res.out.claimed with
       | none, _ => some .noReady
       | some _, some t => some (.claimed t.id t.epicId .doing t.title t.body env.agent res.out.now)
       | some _, none => none)
    | .sequence args =>
      (match args with
       | "rm" :: [a, b] => some (.sequence true [(b, a)])
       | a :: rest => some (.sequence false (((a :: rest).zip rest).map fun (x, y) => (y, x)))
       | [] => none)
    | .prune yes => some (.pruned (!yes) res.out.pruned)
    | .compact => some .compacted
    | .plan _ => res.out.plan.map .planned

end Ergo
