/-
  ErgoModel.Basic — data types of the ergo model.
  Mirrors internal/ergo/model.go (Task, TaskMeta, Graph, events).  Core Lean only.
-/
namespace Ergo

abbrev Id   := String
/-- nanoseconds since Go's zero `time.Time`; `0` is `IsZero()` -/
abbrev Time := Nat

/-- A task state. `replayEvents` stores *any* string, hence `other`. -/
inductive St where
  | todo | doing | done | blocked | canceled | error
  | other (s : String)
  deriving DecidableEq, Repr, Inhabited

def St.ofString : String → St
  | "todo" => .todo | "doing" => .doing | "done" => .done
  | "blocked" => .blocked | "canceled" => .canceled | "error" => .error
  | s => .other s

def St.toString : St → String
  | .todo => "todo" | .doing => "doing" | .done => "done"
  | .blocked => "blocked" | .canceled => "canceled" | .error => "error"
  | .other s => s

/-- member of `validStates` -/
def St.valid : St → Bool
  | .other _ => false
  | _ => true

/-- `state == todo || done || canceled` : the states whose `state` event clears the claimant -/
def St.clearsClaim : St → Bool
  | .todo | .done | .canceled => true
  | _ => false

/-- done or canceled -/
def St.closed : St → Bool
  | .done | .canceled => true
  | _ => false

structure ResultRec where
  summary : String
  path    : String
  sha     : String
  mtime   : String
  git     : String
  time    : Time
  deriving DecidableEq, Repr, Inhabited

/-- One line of the log after `json.Unmarshal` of envelope and payload.
    `Option Time = none` stands for a timestamp text that `parseTime` rejects. -/
inductive Event where
  | newItem (isEpic : Bool) (id uuid epicId : Id) (st : St) (title body : String) (createdAt : Option Time)
  | state (id : Id) (st : St) (ts : Option Time)
  | claim (id agent : Id) (ts : Option Time)
  | unclaim (id : Id)
  | link (frm to : Id) (depends : Bool)
  | unlink (frm to : Id) (depends : Bool)
  | title (id : Id) (t : String) (ts : Option Time)
  | body (id : Id) (b : String) (ts : Option Time)
  | epic (id epicId : Id) (ts : Option Time)
  | tombstone (id agent : Id) (ts : Option Time)
  | result (task : Id) (summary path sha mtime git : String) (ts : Option Time)
  | ignored            -- unknown "type": replay skips it
  | badData            -- known type whose "data" does not unmarshal: replay fails
  deriving DecidableEq, Repr, Inhabited

/-- `Task` and its `TaskMeta` merged (both are created and deleted together in replay). -/
structure Task where
  id        : Id
  uuid      : String
  epicId    : Id
  isEpic    : Bool
  st        : St
  title     : String
  body      : String
  claimedBy : String
  createdAt : Time
  updatedAt : Time
  results   : List ResultRec      -- newest first
  -- TaskMeta
  cTitle    : String
  cBody     : String
  cSt       : St
  cEpic     : Id
  lastState : Time
  lastClaim : Time
  lastTitle : Time
  lastBody  : Time
  lastEpic  : Time
  deriving DecidableEq, Repr, Inhabited

/-- Go's maps become lists: `tasks` in creation order with unique ids (proved invariant),
    `deps` is the set of edges `(from, to)` = "from depends on to", `tombs` the pruned ids. -/
structure Graph where
  tasks : List Task
  deps  : List (Id × Id)
  tombs : List Id
  deriving DecidableEq, Repr, Inhabited

def Graph.empty : Graph := ⟨[], [], []⟩

def Graph.find? (g : Graph) (id : Id) : Option Task := g.tasks.find? (·.id == id)
def Graph.has (g : Graph) (id : Id) : Bool := g.tasks.any (·.id == id)
def Graph.tombed (g : Graph) (id : Id) : Bool := g.tombs.contains id

/-- replace the task with this id (no-op if absent) -/
def Graph.update (g : Graph) (id : Id) (f : Task → Task) : Graph :=
  { g with tasks := g.tasks.map fun t => if t.id == id then f t else t }

inductive ReplayErr where
  | badData | duplicate (id : Id) | badTime
  deriving DecidableEq, Repr, Inhabited

end Ergo
