/-
  ErgoModel.Query — readiness, blocking, claim order, cycle test, prune policy, compaction
  (graph.go:344-681, prune.go:65-111).
-/
import ErgoModel.Replay
namespace Ergo

def strLe (a b : String) : Bool := !(decide (b < a))
def sortIds (l : List Id) : List Id := l.mergeSort strLe

/-- `graph.Deps[id]` as a list -/
def Graph.depsOf (g : Graph) (id : Id) : List Id := (g.deps.filter (·.1 == id)).map (·.2)
/-- `graph.RDeps[id]` as a list -/
def Graph.rdepsOf (g : Graph) (id : Id) : List Id := (g.deps.filter (·.2 == id)).map (·.1)

/-- a dependency that still holds its dependant back: present and neither done nor canceled -/
def depOpen (g : Graph) (d : Id) : Bool :=
  match g.find? d with
  | none => false
  | some o => !o.st.closed

/-- `isEpicComplete`: ranges over *all* items whose `EpicID` matches -/
def isEpicComplete (g : Graph) (e : Id) : Bool := g.tasks.all fun t => t.epicId != e || t.st.closed

/-- `areEpicDepsComplete` -/
def areEpicDepsComplete (g : Graph) (e : Id) : Bool :=
  (g.depsOf e).all fun d =>
    match g.find? d with
    | none => true
    | some de => !de.isEpic || isEpicComplete g d

def isReady (g : Graph) (t : Task) : Bool :=
  t.st == .todo && t.claimedBy == "" && (g.depsOf t.id).all (fun d => !depOpen g d) &&
  (t.epicId == "" || areEpicDepsComplete g t.epicId)

def isBlocked (g : Graph) (t : Task) : Bool :=
  if t.st == .blocked then true
  else if t.st != .todo || t.claimedBy != "" then false
  else if (g.depsOf t.id).any (depOpen g) then true
  else t.epicId != "" && !areEpicDepsComplete g t.epicId

/-- order used by `readyTasks`: `(CreatedAt, ID)` -/
def claimLe (a b : Task) : Bool :=
  a.createdAt < b.createdAt || (a.createdAt == b.createdAt && strLe a.id b.id)

/-- `readyTasks(graph, epicID, kindTask)` -/
def readyTasks (g : Graph) (epicId : Id) : List Task :=
  (g.tasks.filter fun t => (epicId == "" || t.epicId == epicId) && isReady g t && !t.isEpic).mergeSort claimLe

/-! ### cycle test -/
def closeStep (deps : List (Id × Id)) (s : List Id) : List Id :=
  s ++ ((deps.filter fun e => s.contains e.1 && !s.contains e.2).map (·.2)).eraseDups

def closure (deps : List (Id × Id)) : Nat → List Id → List Id
  | 0, s => s
  | n+1, s => closure deps n (closeStep deps s)

/-- is `b` reachable from `a` along dependency edges (`isReachable`) -/
def reachable (deps : List (Id × Id)) (a b : Id) : Bool :=
  (closure deps deps.length [a]).contains b

/-- `hasCycle(graph, from, to)`: would adding `from → to` close a cycle -/
def hasCycle (g : Graph) (f t : Id) : Bool := f == t || reachable g.deps t f

/-! ### prune policy -/
def pruneTaskEligible (t : Task) : Bool := !t.isEpic && t.st.closed
def epicHasRemaining (g : Graph) (e : Id) : Bool :=
  g.tasks.any fun t => !t.isEpic && !t.st.closed && t.epicId != "" && t.epicId == e
/-- `selectPruneTargets` -/
def pruneTargets (g : Graph) : List Id :=
  sortIds ((g.tasks.filter pruneTaskEligible).map (·.id) ++
           (g.tasks.filter fun e => e.isEpic && !epicHasRemaining g e.id).map (·.id))

/-! ### compaction -/
def pickTime (c f : Time) : Time := if c != 0 then c else f

def compactTask (t : Task) : List Event :=
  let cAt := t.createdAt
  let cSt := if t.cSt != .other "" then t.cSt else t.st
  let cTitle := if t.cTitle != "" then t.cTitle else t.title
  let cBody := if t.cBody != "" then t.cBody else t.body
  let cEpic := t.cEpic
  [Event.newItem t.isEpic t.id t.uuid cEpic cSt cTitle cBody (some cAt)]
  ++ (if t.title != cTitle || (t.lastTitle != 0 && t.lastTitle > cAt)
      then [Event.title t.id t.title (some (pickTime t.lastTitle t.updatedAt))] else [])
  ++ (if t.body != cBody || (t.lastBody != 0 && t.lastBody > cAt)
      then [Event.body t.id t.body (some (pickTime t.lastBody t.updatedAt))] else [])
  ++ (if !t.isEpic && (t.epicId != cEpic || (t.lastEpic != 0 && t.lastEpic > cAt))
      then [Event.epic t.id t.epicId (some (pickTime t.lastEpic t.updatedAt))] else [])
  ++ (if t.st != cSt || (t.lastState != 0 && t.lastState > cAt)
      then [Event.state t.id t.st (some (pickTime t.lastState t.updatedAt))] else [])
  ++ (if t.claimedBy != ""
      then [Event.claim t.id t.claimedBy (some (pickTime t.lastClaim t.updatedAt))] else [])
  ++ t.results.reverse.map fun r => Event.result t.id r.summary r.path r.sha r.mtime r.git (some r.time)

def taskIdLe (a b : Task) : Bool := strLe a.id b.id
def edgeLe (a b : Id × Id) : Bool := decide (a.1 < b.1) || (a.1 == b.1 && strLe a.2 b.2)

/-- `compactEvents` -/
def compactEvents (g : Graph) : List Event :=
  ((g.tasks.mergeSort taskIdLe).map compactTask).flatten ++
  (g.deps.mergeSort edgeLe).map fun e => Event.link e.1 e.2 true

end Ergo
