/-
  ErgoModel.Proc — several ergo processes sharing one lock file and one log (util.go withLock + the command closures).
  A process runs one lock section: try the lock (non-blocking) · read the log · decide · write · unlock.
  Any process may be killed between two steps (the kernel then releases its lock).  Readers take no lock.
  The log is kept as a list of events (byte-level matters are ErgoModel.Storage); a batch is written by one write(2).
-/
import ErgoModel.Exec
namespace Ergo.Proc

/-- how a writer process ended -/
inductive Outcome where
  | busy                                         -- flock failed with EWOULDBLOCK: nothing read, nothing written
  | failed (snap : List Event) (e : CmdErr)      -- decided "error" on snapshot `snap`; nothing written
  | ok (snap : List Event) (w : Write)           -- wrote `w`, decided on snapshot `snap`
  deriving DecidableEq, Repr

inductive Phase where
  | start
  | locked                                       -- holds the lock, has not read yet
  | read (snap : List Event)                     -- holds the lock, has read the log
  | wrote (snap : List Event) (w : Write)        -- has written; still holds the lock
  | erred (snap : List Event) (e : CmdErr)       -- decided error; still holds the lock
  | finished (o : Outcome)
  | crashed
  deriving DecidableEq, Repr

/-- a writer: what its closure decides from the log it reads -/
structure Writer where
  decide : List Event → Except CmdErr Write
  phase  : Phase

inductive RPhase where
  | start
  | opened (inode : Nat)                         -- has opened the file the log name pointed to
  | done (seen : List Event)
  deriving DecidableEq, Repr

structure Sys where
  inodes  : List (List Event)                    -- file contents; appends modify in place, a rename adds a new one
  cur     : Nat                                  -- which inode the log name points to
  holder  : Option Nat                           -- who holds the flock
  writers : List Writer
  readers : List RPhase
  /-- ghost: committed sections in commit order — (writer, snapshot it decided on, what it wrote) -/
  commits : List (Nat × List Event × Write)
  /-- ghost: every value the log has had, oldest first -/
  history : List (List Event)

def Sys.log (s : Sys) : List Event := s.inodes.getD s.cur []

def Sys.init (log : List Event) (ws : List (List Event → Except CmdErr Write)) (nReaders : Nat) : Sys :=
  { inodes := [log], cur := 0, holder := none, writers := ws.map fun d => ⟨d, .start⟩,
    readers := List.replicate nReaders .start, commits := [], history := [log] }

def setPhase (s : Sys) (p : Nat) (ph : Phase) : Sys :=
  { s with writers := s.writers.modify p fun w => { w with phase := ph } }

def setReader (s : Sys) (r : Nat) (ph : RPhase) : Sys := { s with readers := s.readers.set r ph }

def writeLog (s : Sys) : Write → Sys
  | .append evs => { s with inodes := s.inodes.set s.cur (s.log ++ evs), history := s.history ++ [s.log ++ evs] }
  | .replace evs => { s with inodes := s.inodes ++ [evs], cur := s.inodes.length, history := s.history ++ [evs] }

/-- one step of one process, chosen by the scheduler -/
inductive Step : Sys → Sys → Prop where
  | lockOk (s p w) : s.writers[p]? = some w → w.phase = .start → s.holder = none →
      Step s { setPhase s p .locked with holder := some p }
  | lockBusy (s p w q) : s.writers[p]? = some w → w.phase = .start → s.holder = some q →
      Step s (setPhase s p (.finished .busy))
  | read (s p w) : s.writers[p]? = some w → w.phase = .locked →
      Step s (setPhase s p (.read s.log))
  | decideErr (s p w snap e) : s.writers[p]? = some w → w.phase = .read snap → w.decide snap = .error e →
      Step s (setPhase s p (.erred snap e))
  | write (s p w snap wr) : s.writers[p]? = some w → w.phase = .read snap → w.decide snap = .ok wr →
      Step s { setPhase (writeLog s wr) p (.wrote snap wr) with commits := s.commits ++ [(p, snap, wr)] }
  | unlockOk (s p w snap wr) : s.writers[p]? = some w → w.phase = .wrote snap wr →
      Step s { setPhase s p (.finished (.ok snap wr)) with holder := none }
  | unlockErr (s p w snap e) : s.writers[p]? = some w → w.phase = .erred snap e →
      Step s { setPhase s p (.finished (.failed snap e)) with holder := none }
  | crash (s p w) : s.writers[p]? = some w → (∀ o, w.phase ≠ .finished o) → w.phase ≠ .crashed →
      Step s { setPhase s p .crashed with holder := if s.holder = some p then none else s.holder }
  | rOpen (s r) : s.readers[r]? = some .start → Step s (setReader s r (.opened s.cur))
  | rRead (s r i) : s.readers[r]? = some (.opened i) → Step s (setReader s r (.done (s.inodes.getD i [])))

/-- any number of steps -/
inductive Reachable : Sys → Sys → Prop where
  | refl (s) : Reachable s s
  | tail {a b c} : Reachable a b → Step b c → Reachable a c

end Ergo.Proc
