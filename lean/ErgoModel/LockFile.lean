/-
  ErgoModel.LockFile — how a process gets the lock (util.go `withLock` + `ensureFileExists`), call by call, with the lock file
  as a *name* that may be missing:

      open(lock, O_RDONLY)                       → a descriptor on the inode the name points to, or ENOENT
      [ENOENT]  stat(lock)                       → exists / missing                     (ensureFileExists)
      [missing] open(lock, O_RDONLY|O_CREAT) ; close             — creates the name only if it is still missing
                open(lock, O_RDONLY)             → a descriptor, or ENOENT (the command fails)
      flock(fd, LOCK_EX|LOCK_NB)                 → held, or EWOULDBLOCK (`lock busy`)
      … the section …
      flock(fd, LOCK_UN) ; close

  A flock belongs to the *inode* behind the descriptor, not to the name: two processes exclude each other only if their
  descriptors are on the same inode.  `ErgoModel.Proc` keeps one abstract `holder`; this model shows what that abstraction
  rests on (ErgoProofs/Lemmas/LockFileThm.lean): no call of ergo ever takes the name away from its inode
  (`Program.mutatesLock`, checked on every traced program), so every descriptor is on the one inode the name ever had, and the
  flock on it is the abstract lock.
-/
namespace Ergo.LockFile

inductive Ph where
  | start
  | missing                    -- the first open said ENOENT
  | creating                   -- stat said ENOENT too: about to create
  | ensured                    -- ensureFileExists returned nil
  | opened (i : Nat)           -- has a descriptor on inode `i`
  | locked (i : Nat)           -- holds the flock on inode `i`: inside the section
  | done (ran : Bool)          -- `true`: ran the section and unlocked; `false`: lock busy, or the lock file could not be opened
  | crashed
  deriving DecidableEq, Repr

structure LSys where
  name   : Option Nat          -- the inode `.ergo/lock` points to; `none`: no such file
  fresh  : Nat                 -- the inode number the next created file gets
  holder : Nat → Option Nat    -- per inode: the process whose descriptor holds the exclusive flock
  procs  : List Ph

def setPh (s : LSys) (p : Nat) (ph : Ph) : LSys := { s with procs := s.procs.set p ph }

def setHolder (h : Nat → Option Nat) (i : Nat) (v : Option Nat) : Nat → Option Nat := fun j => if j = i then v else h j

inductive LStep : LSys → LSys → Prop where
  | open1Ok (s p i) : s.procs[p]? = some .start → s.name = some i → LStep s (setPh s p (.opened i))
  | open1Miss (s p) : s.procs[p]? = some .start → s.name = none → LStep s (setPh s p .missing)
  | statHit (s p i) : s.procs[p]? = some .missing → s.name = some i → LStep s (setPh s p .ensured)
  | statMiss (s p) : s.procs[p]? = some .missing → s.name = none → LStep s (setPh s p .creating)
  /-- `O_CREAT` without `O_EXCL`: an existing file keeps its inode -/
  | create (s p) : s.procs[p]? = some .creating →
      LStep s (setPh (match s.name with
                      | some _ => s
                      | none => { s with name := some s.fresh, fresh := s.fresh + 1 }) p .ensured)
  | open2Ok (s p i) : s.procs[p]? = some .ensured → s.name = some i → LStep s (setPh s p (.opened i))
  | open2Miss (s p) : s.procs[p]? = some .ensured → s.name = none → LStep s (setPh s p (.done false))
  | flockOk (s p i) : s.procs[p]? = some (.opened i) → s.holder i = none →
      LStep s (setPh { s with holder := setHolder s.holder i (some p) } p (.locked i))
  | flockBusy (s p i q) : s.procs[p]? = some (.opened i) → s.holder i = some q → LStep s (setPh s p (.done false))
  | unlock (s p i) : s.procs[p]? = some (.locked i) →
      LStep s (setPh { s with holder := setHolder s.holder i none } p (.done true))
  /-- killed anywhere: the kernel closes the descriptor, which drops its flock -/
  | crash (s p ph) : s.procs[p]? = some ph → (∀ b, ph ≠ .done b) → ph ≠ .crashed →
      LStep s (setPh (match ph with
                      | .locked i => { s with holder := setHolder s.holder i none }
                      | _ => s) p .crashed)

inductive LReachable : LSys → LSys → Prop where
  | refl (s) : LReachable s s
  | tail {a b c} : LReachable a b → LStep b c → LReachable a c

/-- `n` processes about to start, the lock file present (`some i`) or not -/
def LSys.init (name : Option Nat) (fresh n : Nat) : LSys :=
  { name, fresh, holder := fun _ => none, procs := List.replicate n .start }

/-- who is inside a section -/
def LSys.inside (s : LSys) (p : Nat) : Prop := ∃ i, s.procs[p]? = some (.locked i)

/-- the variant of a seeded change (C01-e): the file is created under another name and *renamed* into place — the name gets
    a new inode even if another process has created (and locked) one meanwhile -/
inductive LStepRename : LSys → LSys → Prop where
  | base (s t) : LStep s t → LStepRename s t
  | createByRename (s p) : s.procs[p]? = some .creating →
      LStepRename s (setPh { s with name := some s.fresh, fresh := s.fresh + 1 } p .ensured)

/-! ### one process's calls on the lock file, as strace reports them (T3) -/

inductive LCall where
  | openRO (found : Bool)      -- open(lock, O_RDONLY): a descriptor, or ENOENT
  | stat (found : Bool)        -- stat(lock)
  | creat                      -- open(lock, … O_CREAT …) (and its close): creates the name only if missing
  | flockEx (ok : Bool)        -- flock(fd of the lock file, LOCK_EX|LOCK_NB)
  | flockUn
  | bad                        -- anything else: a rename onto the name, unlink, truncate, a write, a flock on another file …
  deriving DecidableEq, Repr, Inhabited

/-- the phase without the inode -/
inductive Kind where
  | start | missing | creating | ensured | opened | locked | done (ran : Bool)
  deriving DecidableEq, Repr, Inhabited

def Ph.kind : Ph → Option Kind
  | .start => some .start | .missing => some .missing | .creating => some .creating | .ensured => some .ensured
  | .opened _ => some .opened | .locked _ => some .locked | .done b => some (.done b) | .crashed => none

/-- `withLock`'s control flow over the answers it gets -/
def next : Kind → LCall → Option Kind
  | .start, .openRO true => some .opened
  | .start, .openRO false => some .missing
  | .missing, .stat true => some .ensured
  | .missing, .stat false => some .creating
  | .creating, .creat => some .ensured
  | .ensured, .openRO true => some .opened
  | .ensured, .openRO false => some (.done false)
  | .opened, .flockEx true => some .locked
  | .opened, .flockEx false => some (.done false)
  | .locked, .flockUn => some (.done true)
  | _, _ => none

def runCalls (cs : List LCall) : Option Kind := cs.foldlM next .start

/-- a complete program of one process on the lock file: it follows `withLock` and ends outside the section -/
def acquireOK (cs : List LCall) : Bool :=
  match runCalls cs with
  | some (.done _) => true
  | _ => false

end Ergo.LockFile
