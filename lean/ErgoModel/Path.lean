/-
  ErgoModel.Path — Go's lexical path functions on '/'-separated paths (path/filepath on Unix: Clean, Join, Dir, Base, IsAbs),
  ergo's result-path validation, the `.ergo` discovery walk and the choice of log file (storage.go).
  Paths are `List Char`; the file system is a parameter.
-/
namespace Ergo.Path

abbrev P := List Char

/-- split at '/' (n separators give n+1 components) -/
def splitSlash : P → List P
  | [] => [[]]
  | c :: cs =>
    match splitSlash cs with
    | [] => [[c]]
    | l :: ls => if c == '/' then [] :: l :: ls else (c :: l) :: ls

def joinSlash : List P → P
  | [] => []
  | [l] => l
  | l :: ls => l ++ '/' :: joinSlash ls

def isAbs (p : P) : Bool := p.head? == some '/'

def dotdot : P := ['.', '.']

/-- `Clean`'s single left-to-right pass over the components: `out` are the kept names (innermost last),
    `ups` the leading ".." of a relative path that nothing can cancel any more -/
def cleanStep (rooted : Bool) (st : List P × Nat) (comp : P) : List P × Nat :=
  let (out, ups) := st
  if comp == [] || comp == ['.'] then (out, ups)
  else if comp == dotdot then
    if !out.isEmpty then (out.dropLast, ups)
    else if rooted then (out, ups) else (out, ups + 1)
  else (out ++ [comp], ups)

/-- `filepath.Clean` -/
def clean (p : P) : P :=
  if p == [] then ['.'] else
  let rooted := isAbs p
  let (out, ups) := (splitSlash p).foldl (cleanStep rooted) ([], 0)
  let comps := List.replicate ups dotdot ++ out
  if rooted then '/' :: joinSlash comps
  else if comps.isEmpty then ['.'] else joinSlash comps

/-- `filepath.Join`: empty elements are ignored, the rest joined with '/' and cleaned -/
def join (elems : List P) : P :=
  let ne := elems.filter (· != [])
  if ne.isEmpty then [] else clean (joinSlash ne)

/-- `filepath.Dir` -/
def dir (p : P) : P :=
  let i := (p.reverse.dropWhile (· != '/')).reverse      -- up to and including the last '/'
  clean i

/-- `filepath.Base` -/
def base (p : P) : P :=
  if p == [] then ['.'] else
  let q := (p.reverse.dropWhile (· == '/')).reverse      -- strip trailing slashes
  if q == [] then ['/'] else
  (q.reverse.takeWhile (· != '/')).reverse

def hasPrefix (p pre : P) : Bool := pre.isPrefixOf p
def containsSub (p sub : P) : Bool := (List.range (p.length + 1)).any fun i => sub.isPrefixOf (p.drop i)

/-- what `os.Stat` says: `blocked` = an error other than "does not exist" (e.g. ENOTDIR: a prefix of the path is a file);
    `other` = fifo/socket/device (after following symlinks) -/
inductive Kind where | missing | file | dir | other | blocked
  deriving DecidableEq, Repr, Inhabited

inductive PathErr where
  | absolute | outside | inErgo | missing | notFile | access
  deriving DecidableEq, Repr, Inhabited

def ergoName : P := ".ergo".toList

/-- `validateResultPath` (storage.go): lexical confinement, then existence and kind -/
def validateResultPath (fs : P → Kind) (repoDir rel : P) : Except PathErr P :=
  let c := clean rel
  if isAbs c then .error .absolute
  else if hasPrefix c dotdot || containsSub c ('/' :: dotdot) then .error .outside
  else if hasPrefix c (ergoName ++ ['/']) || c == ergoName then .error .inErgo
  else match fs (join [repoDir, c]) with
    | .missing => .error .missing
    | .blocked => .error .access
    | .file => .ok c
    | _ => .error .notFile       -- directories, FIFOs, devices

inductive FindErr where | notDir (p : P) | notFound | statErr
  deriving DecidableEq, Repr, Inhabited

/-- the upward walk of `resolveErgoDir` over the *string* `start`, then the "start is itself .ergo" fallback -/
def resolveWalk (fs : P → Kind) : Nat → P → Option (Except FindErr P)
  | 0, _ => none
  | n + 1, cur =>
    let cand := join [cur, ergoName]
    match fs cand with
    | .dir => some (.ok cand)
    | .missing => if cur == dir cur then none else resolveWalk fs n (dir cur)
    | .blocked => some (.error .statErr)
    | _ => some (.error (.notDir cand))

/-- `filepath.Abs` -/
def absPath (cwd p : P) : P := if isAbs p then clean p else join [cwd, p]

/-- `resolveErgoDir`: the start is made absolute first (so every spelling of a directory behaves alike and the
    result is absolute), then the upward walk, then the "start is itself .ergo" fallback -/
def resolveErgoDir (fs : P → Kind) (cwd start0 : P) : Except FindErr P :=
  let start := absPath cwd start0
  match resolveWalk fs (start.length + 2) start with
  | some r => r
  | none =>
    if base start == ergoName then
      match fs start with
      | .dir => .ok start
      | .missing => .error .notFound
      | .blocked => .error .statErr
      | _ => .error (.notDir start)
    else .error .notFound

/-- `getEventsPath`: plans.jsonl if present, else events.jsonl if present, else plans.jsonl -/
def eventsFile (plans events : Bool) : String := if plans then "plans.jsonl" else if events then "events.jsonl" else "plans.jsonl"

/-- `RunInit` on an existing `.ergo`: which of (plans.jsonl, events.jsonl, lock) exist afterwards -/
def initFiles (plans events _lock : Bool) : Bool × Bool × Bool := (plans || !events, events, true)

end Ergo.Path
