/-
  ErgoModel.Replay — `replayEvents` of internal/ergo/graph.go, case for case.
-/
import ErgoModel.Basic
import ErgoModel.Text
namespace Ergo

def maxTime (cur next : Time) : Time := if next > cur then next else cur

def applyTombstone (g : Graph) (id : Id) : Graph :=
  { tasks := g.tasks.filter (·.id != id)
    deps  := g.deps.filter fun e => e.1 != id && e.2 != id
    tombs := if g.tombs.contains id then g.tombs else g.tombs ++ [id] }

/-- helper for the six "update an existing live item" cases: tombstoned or unknown id ⇒ skipped
    *before* the timestamp is parsed. -/
def withLive (g : Graph) (id : Id) (ts : Option Time) (f : Task → Time → Task) : Except ReplayErr Graph :=
  if g.tombed id then .ok g
  else if !g.has id then .ok g
  else match ts with
    | none => .error .badTime
    | some t => .ok (g.update id fun k => f k t)

def applyEvent (g : Graph) : Event → Except ReplayErr Graph
  | .newItem isEpic id uuid epicId st title body createdAt =>
    if g.tombed id then .ok g
    else if g.has id then .error (.duplicate id)
    else match createdAt with
      | none => .error .badTime
      | some c => .ok { g with tasks := g.tasks ++ [{
          id, uuid, epicId, isEpic, st, title, body, claimedBy := "", createdAt := c, updatedAt := c,
          results := [], cTitle := title, cBody := body, cSt := st, cEpic := epicId,
          lastState := 0, lastClaim := 0, lastTitle := 0, lastBody := 0, lastEpic := 0 }] }
  | .state id st ts => withLive g id ts fun k t =>
      { k with st := st, updatedAt := maxTime k.updatedAt t,
               claimedBy := if st.clearsClaim then "" else k.claimedBy, lastState := t }
  | .claim id agent ts => withLive g id ts fun k t => { k with claimedBy := agent, lastClaim := t }
  | .unclaim id =>
      if g.tombed id then .ok g else .ok (g.update id fun k => { k with claimedBy := "" })
  | .link f t dep =>
      if g.tombed f || g.tombed t || !dep then .ok g
      else if g.deps.contains (f, t) then .ok g else .ok { g with deps := g.deps ++ [(f, t)] }
  | .unlink f t dep =>
      if g.tombed f || g.tombed t || !dep then .ok g
      else .ok { g with deps := g.deps.filter (· != (f, t)) }
  | .title id s ts => withLive g id ts fun k t =>
      { k with title := s, updatedAt := maxTime k.updatedAt t, lastTitle := t }
  | .body id s ts => withLive g id ts fun k t =>
      { k with body := s, updatedAt := maxTime k.updatedAt t, lastBody := t }
  | .epic id e ts => withLive g id ts fun k t =>
      { k with epicId := e, updatedAt := maxTime k.updatedAt t, lastEpic := t }
  | .tombstone id _ ts =>
      match ts with
      | none => .error .badTime
      | some _ => .ok (applyTombstone g id)
  | .result task summary path sha mtime git ts => withLive g task ts fun k t =>
      { k with results := { summary, path, sha, mtime, git, time := t } :: k.results,
               updatedAt := maxTime k.updatedAt t }
  | .ignored => .ok g
  | .badData => .error .badData

/-- the event loop, without the final legacy-title pass -/
def replayRaw (evs : List Event) : Except ReplayErr Graph := evs.foldlM applyEvent Graph.empty

/-- `applyLegacyTitleMigration` -/
def migrateTask (t : Task) : Task :=
  if Text.isBlank t.title then
    let (ti, bo) := Text.deriveTitleAndBody t.body
    { t with title := ti, body := bo }
  else t

def migrate (g : Graph) : Graph := { g with tasks := g.tasks.map migrateTask }

def replay (evs : List Event) : Except ReplayErr Graph := (replayRaw evs).map migrate

end Ergo
