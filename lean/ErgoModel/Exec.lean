/-
  ErgoModel.Exec — sequential execution of a command: each section replays the log as it is when
  the section takes the lock, decides, and writes; the first failing section aborts the rest
  (what was written by earlier sections stays — that is the code as it exists).
-/
import ErgoModel.Cli
namespace Ergo

/-- everything a command obtains from outside while it runs -/
structure Env where
  agent : String := ""
  times : List Time := []       -- successive `time.Now()` readings that end up in event payloads
  ids   : List Id := []         -- successive `shortID()` draws
  uuids : List String := []
  po    : PathOutcome := .rejected "none"   -- what validateResultPath/captureResultEvidence will say
  deriving Repr, Inhabited

def Env.now (e : Env) : Time := e.times.headD 0
def Env.tick (e : Env) : Env := { e with times := e.times.tail }

structure PlanOut where
  epicId : Id := ""
  epicUuid : String := ""
  title : String := ""
  createdAt : Time := 0
  tasks : List (Id × String) := []
  edges : List (Id × Id) := []
  deriving DecidableEq, Repr, Inhabited

/-- draw `n` fresh ids -/
def drawIds (live : Id → Bool) : Nat → List Id → List Id → Option (List Id × List Id)
  | 0, _, acc => some (acc.reverse, [])
  | n+1, ids, acc =>
    match pickId.go (fun i => live i || acc.contains i) 64 ids with
    | none => none
    | some (i, rest) =>
      match drawIds live n rest (i :: acc) with
      | none => none
      | some (l, _) => some (l, rest)

/-- skip the draws `pickId` consumed -/
def dropDrawn (live : Id → Bool) : Nat → List Id → List Id
  | 0, l => l
  | _, [] => []
  | n+1, i :: rest => if live i then dropDrawn live n rest else rest

def planLinks (g : Graph) (t2i : List (String × Id)) :
    List (Id × List String) → List (Id × Id) → Except CmdErr (List (Id × Id))
  | [], acc => .ok acc.reverse
  | (f, afters) :: rest, acc =>
    let rec go : List String → List (Id × Id) → Except CmdErr (List (Id × Id))
      | [], acc => .ok acc
      | a :: as, acc =>
        let t := (t2i.lookup a).getD ""
        if acc.contains (f, t) then go as acc
        else if f == t then .error .depSelf
        else if hasCycle { g with deps := g.deps ++ acc.reverse } f t then .error .depCycle
        else go as ((f, t) :: acc)
    match go afters acc with
    | .error e => .error e
    | .ok acc' => planLinks g t2i rest acc'

/-- the closure of `RunPlan` -/
def secPlan (log : List Event) (g : Graph) (p : PlanInput) (env : Env) : Except CmdErr (Write × PlanOut) :=
  let n := p.tasks.length
  match drawIds g.taken (n + 1) env.ids [] with
  | none => .error .idExhausted
  | some ([], _) => .error .idExhausted
  | some (epicId :: taskIds, _) =>
    let title := p.title.getD ""
    let now := env.now
    let epicEv := Event.newItem true epicId (env.uuids.headD "") "" .todo title (p.body.getD "") (some now)
    let rows := (p.tasks.zip taskIds).zip ((env.times.tail.zip env.uuids.tail))
    let taskEvs := rows.map fun ((t, id), (tm, uu)) =>
      Event.newItem false id uu epicId .todo (t.title.getD "") (t.body.getD "") (some tm)
    -- later duplicates overwrite earlier ones in titleToID
    let t2i := ((p.tasks.zip taskIds).map fun (t, id) => (t.title.getD "", id)).reverse
    match planLinks g t2i ((p.tasks.zip taskIds).map fun (t, id) => ((t2i.lookup (t.title.getD "")).getD id, t.after)) [] with
    | .error e => .error e
    | .ok edges =>
      .ok (.replace (log ++ [epicEv] ++ taskEvs ++ edges.map fun e => Event.link e.1 e.2 true),
           { epicId, epicUuid := env.uuids.headD "", title, createdAt := now,
             tasks := (p.tasks.zip taskIds).map fun (t, id) => (id, t.title.getD ""), edges })

/-- what a section reports back to the command -/
structure SecOut where
  created : Option Id := none
  uuid    : String := ""
  now     : Time := 0
  claimed : Option Task := none
  pruned  : List Id := []
  plan    : Option PlanOut := none
  deriving Repr, Inhabited

def resolve (r : IdRef) (created : Option Id) : Id :=
  match r with
  | .lit i => i
  | .created => created.getD ""

/-- run one section against the log as it is at lock time -/
def runSec (log : List Event) (created : Option Id) (env : Env) (s : Sec) : Except CmdErr (Write × SecOut × Env) :=
  match replay log with
  | .error e => .error (.replay e)
  | .ok g =>
    match s with
    | .create isEpic epicId title body =>
      (secCreate g isEpic epicId title body env.ids (env.uuids.headD "") env.now).map fun (w, id) =>
        (w, { created := some id, uuid := env.uuids.headD "", now := env.now },
         { env.tick with ids := dropDrawn g.taken 64 env.ids, uuids := env.uuids.tail })
    | .result id summary _path =>
      (secResult g (resolve id created) summary env.po env.now).map fun w => (w, { now := env.now }, env.tick)
    | .set id u =>
      (secSet g (resolve id created) u env.agent env.now).map fun w => (w, { now := env.now }, env.tick)
    | .link un f t => (secLink g un f t).map fun w => (w, {}, env)
    | .claimOldest epic =>
      (secClaimOldest g epic env.agent env.now).map fun (w, t) => (w, { claimed := some t, now := env.now }, env.tick)
    | .prune apply =>
      let (w, ids) := secPrune g apply env.agent env.now
      .ok (w, { pruned := ids, now := env.now }, if apply && !ids.isEmpty then env.tick else env)
    | .compact => .ok (secCompact g, {}, env)
    | .plan p => (secPlan log g p env).map fun (w, o) => (w, { plan := some o }, env)

def applyWrite (log : List Event) : Write → List Event
  | .append evs => log ++ evs
  | .replace evs => evs

structure RunState where
  log     : List Event
  created : Option Id := none
  env     : Env
  outs    : List SecOut := []
  writes  : List Write := []
  deriving Repr, Inhabited

/-- run the sections in order; the first error stops the command, keeping earlier writes -/
def runSecs : List Sec → RunState → RunState × Option CmdErr
  | [], st => (st, none)
  | s :: rest, st =>
    match runSec st.log st.created st.env s with
    | .error e => (st, some e)
    | .ok (w, o, env') =>
      runSecs rest { log := applyWrite st.log w, created := o.created <|> st.created, env := env',
                     outs := st.outs ++ [o], writes := st.writes ++ [w] }

structure CmdResult where
  err    : Option CmdErr
  log    : List Event            -- the log afterwards
  writes : List Write
  outs   : List SecOut
  deriving Repr, Inhabited

/-- a whole command, run alone -/
def runCmd (log : List Event) (env : Env) (req : Request) : CmdResult :=
  match sections env.agent req with
  | .error e => { err := some e, log, writes := [], outs := [] }
  | .ok secs =>
    let (st, e) := runSecs secs { log, env }
    -- `claim` (oldest ready) turns "no ready tasks" into exit 0
    let e := match req, e with
      | .claimOldest _, some .noReady => none
      | _, e => e
    { err := e, log := st.log, writes := st.writes, outs := st.outs }

end Ergo
