/-
  ErgoModel.Exec — sequential execution of a command: each section replays the log as it is when
  the section takes the lock, decides, and writes; the first failing section aborts the rest
  (what was written by earlier sections stays — that is the code as it exists).
-/
import ErgoModel.Cli
namespace Ergo

/-- everything a command obtains from outside while it runs -/
structure Env where
  agent : String := ""
  times : List Time := []       -- successive `time.Now()` readings that end up in event payloads
  ids   : List Id := []         -- successive `shortID()` draws
  uuids : List String := []
  po    : PathOutcome := .rejected "none"   -- what validateResultPath/captureResultEvidence will say
  deriving Repr, Inhabited

def Env.now (e : Env) : Time := e.times.headD 0
def Env.tick (e : Env) : Env := { e with times := e.times.tail }

structure PlanOut where
  epicId : Id := ""
  epicUuid : String := ""
  title : String := ""
  createdAt : Time := 0
  tasks : List (Id × String) := []
  edges : List (Id × Id) := []
  deriving DecidableEq, Repr, Inhabited

/-- draw `n` fresh ids -/
def drawIds (live : Id → Bool) : Nat → List Id → List Id → Option (List Id × List Id)
  | 0, _, acc => some (acc.reverse, [])
  | n+1, ids, acc =>
    match pickId.go (fun i => live i || acc.contains i) 64 ids with
    | none => none
    | some (i, rest) =>
      match drawIds live n rest (i :: acc) with
      | none => none
      | some (l, _) => some (l, rest)

def planLinks (g : Graph) (t2i : List (String × Id)) :
    List (Id × List String) → List (Id × Id) → Except CmdErr (List (Id × Id))
  | [], acc => .ok acc.reverse
  | (f, afters) :: rest, acc =>
    let rec go : List String → List (Id × Id) → Except CmdErr (List (Id × Id))
      | [], acc => .ok acc
      | a :: as, acc =>
        let t := (t2i.lookup a).getD ""
        if acc.contains (f, t) then go as acc
        else if f == t then .error .depSelf
        else if hasCycle { g with deps := g.deps ++ acc.reverse } f t then .error .depCycle
        else go as ((f, t) :: acc)
    match go afters acc with
    | .error e => .error e
    | .ok acc' => planLinks g t2i rest acc'

/-- the closure of `RunPlan` -/
def secPlan (log : List Event) (g : Graph) (p : PlanInput) (env : Env) : Except CmdErr (Write × PlanOut) :=
  let n := p.tasks.length
  match drawIds g.taken (n + 1) env.ids [] with
  | none => .error .idExhausted
  | some ([], _) => .error .idExhausted
  | some (epicId :: taskIds, _) =>
    let title := p.title.getD ""
    let now := env.now
    let epicEv := Event.newItem true epicId (env.uuids.headD "") "" .todo title (p.body.getD "") (some now)
    -- task i takes the (i+1)-th clock reading and uuid of the environment (missing ones default, they are never dropped)
    let taskEvs := (p.tasks.zip taskIds).zipIdx.map fun ((t, id), i) =>
      Event.newItem false id (env.uuids.getD (i + 1) "") epicId .todo (t.title.getD "") (t.body.getD "")
        (some (env.times.getD (i + 1) now))
    -- later duplicates overwrite earlier ones in titleToID
    let t2i := ((p.tasks.zip taskIds).map fun (t, id) => (t.title.getD "", id)).reverse
    match planLinks g t2i ((p.tasks.zip taskIds).map fun (t, id) => ((t2i.lookup (t.title.getD "")).getD id, t.after)) [] with
    | .error e => .error e
    | .ok edges =>
      .ok (.replace (log ++ [epicEv] ++ taskEvs ++ edges.map fun e => Event.link e.1 e.2 true),
           { epicId, epicUuid := env.uuids.headD "", title, createdAt := now,
             tasks := (p.tasks.zip taskIds).map fun (t, id) => (id, t.title.getD ""), edges })

/-- what a section reports back to the command -/
structure SecOut where
  created : Option Id := none
  uuid    : String := ""
  now     : Time := 0
  claimed : Option Task := none
  pruned  : List Id := []
  plan    : Option PlanOut := none
  deriving Repr, Inhabited

/-- run the command's lock section against the log as it is at lock time -/
def runSec (log : List Event) (env : Env) (s : Sec) : Except CmdErr (Write × SecOut) :=
  match replay log with
  | .error e => .error (.replay e)
  | .ok g =>
    match s with
    | .create isEpic epicId title body follow =>
      (secCreate g isEpic epicId title body follow env.ids (env.uuids.headD "") env.agent env.po env.now).map fun (w, id) =>
        (w, { created := some id, uuid := env.uuids.headD "", now := env.now })
    | .update id r =>
      (secUpdate g id r env.agent env.po env.now).map fun w => (w, { now := env.now })
    | .links un edges => (secLinks g un edges).map fun w => (w, {})
    | .claimOldest epic =>
      (secClaimOldest g epic env.agent env.now).map fun (w, t) => (w, { claimed := some t, now := env.now })
    | .prune apply =>
      let (w, ids) := secPrune g apply env.agent env.now
      .ok (w, { pruned := ids, now := env.now })
    | .compact => .ok (secCompact g, {})
    | .plan p => (secPlan log g p env).map fun (w, o) => (w, { plan := some o })

def applyWrite (log : List Event) : Write → List Event
  | .append evs => log ++ evs
  | .replace evs => evs

structure CmdResult where
  err    : Option CmdErr
  log    : List Event            -- the log afterwards
  write  : Option Write
  out    : SecOut
  deriving Repr, Inhabited

/-- a whole command, run alone: pre-lock validation, then its one lock section -/
def runCmd (log : List Event) (env : Env) (req : Request) : CmdResult :=
  match sectionOf env.agent req with
  | .error e => { err := some e, log, write := none, out := {} }
  | .ok sec =>
    match runSec log env sec with
    | .ok (w, o) => { err := none, log := applyWrite log w, write := some w, out := o }
    | .error e =>
      -- `claim` (oldest ready) turns "no ready tasks" into exit 0
      let e' := match req, e with
        | .claimOldest _, .noReady => none
        | _, e => some e
      { err := e', log, write := none, out := {} }

end Ergo
