/-
  ErgoModel.Input — the JSON documents on stdin (json_input.go `ParseTaskInput`, plan_input.go `ParsePlanInput`): a
  `json.Decoder` with `DisallowUnknownFields` decodes the first value into a struct of `*string` fields (and, for a plan, a slice of
  such structs each with a `[]string`), then a second `Decode` must hit end of input.  Built on the scanner of ErgoModel.Codec:

  * the first value: an object (members as found by `Codec.members`), `null` (nothing set), anything else is a type error;
  * what follows it must be white space only ("multiple JSON values provided" / a syntax error otherwise);
  * a key must match one of the struct's fields — exactly or under Go's case folding — else "unknown field";
  * a string sets the field, `null` clears it (pointer fields), any other value is a type error; the last duplicate wins;
  * `tasks`: `null` or an array whose elements are objects or `null`; `after`: `null` or an array of strings / `null`.
  `none` = the command answers `parse_error`.
-/
import ErgoModel.Codec
import ErgoModel.Cli
namespace Ergo.Input
open Ergo.Codec
open Ergo.Storage (Bytes)

/-- the elements of an array after `[` or `,`: raw element texts and what follows the closing bracket -/
def elemsRaw : Nat → Bytes → Option (List Bytes × Bytes)
  | 0, _ => none
  | f + 1, s =>
    let v := skipWs s
    match skipValue FUEL (DEPTH - 2) v with
    | none => none
    | some r3 =>
      let raw := v.take (v.length - r3.length)
      match skipWs r3 with
      | [] => none
      | e :: r4 =>
        if e = 44 then (elemsRaw f r4).map fun p => (raw :: p.1, p.2)
        else if e = 93 then some ([raw], r4)
        else none

/-- the elements of a raw array text; `none` if it is not an array -/
def arrayElems (raw : Bytes) : Option (List Bytes) :=
  match raw with
  | [] => none
  | b :: r =>
    if b ≠ 91 then none else
    match skipWs r with
    | [] => none
    | c :: r' =>
      if c = 93 then some []
      else (elemsRaw FUEL (c :: r')).map (·.1)

/-- the first JSON value of the stream and what follows it -/
def firstValue (s : Bytes) : Option (Bytes × Bytes) :=
  let v := skipWs s
  match skipValue FUEL DEPTH v with
  | none => none
  | some rest => some (v.take (v.length - rest.length), rest)

/-- the members of the one document on stdin: `some []` for `null` -/
def document (stdin : Bytes) : Option (List (Bytes × Bytes)) :=
  match firstValue stdin with
  | none => none
  | some (v, rest) =>
    if skipWs rest ≠ [] then none        -- a second value, or junk
    else match parseTop v with
      | .obj ms => some ms
      | .null => some []
      | .err => none

/-- decode members into `*string` fields named `names`; `none` = unknown key or a value that is neither a string nor `null` -/
def ptrFields (names : List String) (ms : List (Bytes × Bytes)) : Option (List (Option String)) :=
  ms.foldl (fun acc m =>
    match acc with
    | none => none
    | some cur =>
      match names.findIdx? (fun n => keyMatches m.1 n) with
      | none => none
      | some i =>
        match valKind m.2 with
        | .str => some (cur.set i (some (strVal m.2)))
        | .null => some (cur.set i none)
        | .other => none) (some (names.map fun _ => none))

def taskInputFields : List String := ["title", "body", "epic", "state", "claim", "result_path", "result_summary"]

/-- `ParseTaskInput` -/
def parseTaskInput (stdin : Bytes) : Option TaskInput :=
  match document stdin with
  | none => none
  | some ms =>
    match ptrFields taskInputFields ms with
    | some [t, b, e, s, c, rp, rs] => some { title := t, body := b, epic := e, state := s, claim := c, resultPath := rp, resultSummary := rs }
    | _ => none

/-- a `[]string`: `null` or an array of strings (a `null` element is the empty string) -/
def stringSlice (raw : Bytes) : Option (List String) :=
  match valKind raw with
  | .null => some []
  | _ =>
    match arrayElems raw with
    | none => none
    | some es => es.mapM fun e =>
        match valKind e with
        | .str => some (strVal e)
        | .null => some ""
        | .other => none

/-- one member list decoded into the fields of `PlanTaskInput`; the struct being filled is passed along (a later duplicate overrides) -/
def planTaskOf (ms : List (Bytes × Bytes)) : Option PlanTask :=
  ms.foldl (fun acc m =>
    match acc with
    | none => none
    | some (t : PlanTask) =>
      if keyMatches m.1 "title" then
        match valKind m.2 with
        | .str => some { t with title := some (strVal m.2) }
        | .null => some { t with title := none }
        | .other => none
      else if keyMatches m.1 "body" then
        match valKind m.2 with
        | .str => some { t with body := some (strVal m.2) }
        | .null => some { t with body := none }
        | .other => none
      else if keyMatches m.1 "after" then
        (stringSlice m.2).map fun a => { t with after := a }
      else none) (some {})

/-- `[]PlanTaskInput`: `null` or an array of objects (`null` elements are zero tasks) -/
def taskSlice (raw : Bytes) : Option (List PlanTask) :=
  match valKind raw with
  | .null => some []
  | _ =>
    match arrayElems raw with
    | none => none
    | some es => es.mapM fun e =>
        match parseTop e with
        | .obj ms => planTaskOf ms
        | .null => some {}
        | .err => none

/-- `ParsePlanInput` -/
def parsePlanInput (stdin : Bytes) : Option PlanInput :=
  match document stdin with
  | none => none
  | some ms =>
    ms.foldl (fun acc m =>
      match acc with
      | none => none
      | some (p : PlanInput) =>
        if keyMatches m.1 "title" then
          match valKind m.2 with
          | .str => some { p with title := some (strVal m.2) }
          | .null => some { p with title := none }
          | .other => none
        else if keyMatches m.1 "body" then
          match valKind m.2 with
          | .str => some { p with body := some (strVal m.2) }
          | .null => some { p with body := none }
          | .other => none
        else if keyMatches m.1 "tasks" then
          (taskSlice m.2).map fun ts => { p with tasks := ts }
        else none) (some {})

end Ergo.Input
