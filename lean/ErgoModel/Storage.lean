/-
  ErgoModel.Storage — the log file at byte level (storage.go: readEvents, appendEvents, replaceEventsAtomically).
  The JSON-object parser of a line and the encoder of an event are parameters (`classify`, `encode`):
  theorems hold for every pair satisfying the stated hypotheses; the executable driver receives each line's
  classification from the real `json.Unmarshal`.
-/
import ErgoModel.Basic
namespace Ergo.Storage

abbrev Bytes := List UInt8
def NL : UInt8 := 10
def CR : UInt8 := 13

/-- `bytes.Split(f, "\n")`: n newlines give n+1 pieces -/
def splitNL : Bytes → List Bytes
  | [] => [[]]
  | b :: bs =>
    match splitNL bs with
    | [] => [[b]]                 -- unreachable
    | l :: ls => if b == NL then [] :: l :: ls else (b :: l) :: ls

def dropCR (l : Bytes) : Bytes := if l.getLast? = some CR then l.dropLast else l

/-- the tokens `bufio.ScanLines` yields for the whole file: the final unterminated remainder counts iff non-empty -/
def scanLines (f : Bytes) : List Bytes :=
  let parts := splitNL f
  (if parts.getLast? = some [] then parts.dropLast else parts).map dropCR

def endsWithNL (f : Bytes) : Bool := f.getLast? == some NL

/-- what `bytes.TrimSpace` + `json.Unmarshal(&Event)` make of one line -/
inductive LineClass where
  | blank
  | ev (e : Event)
  | bad
  deriving DecidableEq, Repr, Inhabited

inductive ReadErr where
  | badLine (n : Nat)      -- 1-based physical line number, as in the message
  | tooLong
  deriving DecidableEq, Repr, Inhabited

/-- the scanner loop with its one-line delay (`pending`) -/
def readLoop (classify : Bytes → LineClass) (limit : Nat) :
    List Bytes → Nat → Option (Nat × Bytes) → List Event → Except ReadErr (List Event × Option (Nat × Bytes))
  | [], _, pending, acc => .ok (acc, pending)
  | l :: rest, n, pending, acc =>
    if l.length ≥ limit then .error .tooLong
    else match pending with
      | none => readLoop classify limit rest (n + 1) (some (n + 1, l)) acc
      | some (pn, pl) =>
        match classify pl with
        | .bad => .error (.badLine pn)
        | .blank => readLoop classify limit rest (n + 1) (some (n + 1, l)) acc
        | .ev e => readLoop classify limit rest (n + 1) (some (n + 1, l)) (acc ++ [e])

/-- `readEvents`: a final line that does not parse is dropped iff the file does not end in '\n' -/
def readEvents (classify : Bytes → LineClass) (limit : Nat) (f : Bytes) : Except ReadErr (List Event) :=
  match readLoop classify limit (scanLines f) 0 none [] with
  | .error e => .error e
  | .ok (acc, none) => .ok acc
  | .ok (acc, some (pn, pl)) =>
    match classify pl with
    | .bad => if endsWithNL f then .error (.badLine pn) else .ok acc
    | .blank => .ok acc
    | .ev e => .ok (acc ++ [e])

/-- the bytes one batch of events adds: each event's line followed by '\n' -/
def linesOf (encode : Event → Bytes) (evs : List Event) : Bytes := evs.flatMap fun e => encode e ++ [NL]

/-- everything after the last '\n' (the whole file if there is none) -/
def lastFragment (f : Bytes) : Bytes := (splitNL f).getLast?.getD []
/-- the file up to and including its last '\n' -/
def uptoLastNL (f : Bytes) : Bytes := f.take (f.length - (lastFragment f).length)

/-- `repairTornTail`: under the lock, before appending — a log that does not end in '\n' keeps its final
    fragment iff it is a complete event (then only the newline is added), otherwise the fragment is cut off -/
def repairTail (classify : Bytes → LineClass) (f : Bytes) : Bytes :=
  if f.isEmpty || endsWithNL f then f
  else match classify (dropCR (lastFragment f)) with
    | .ev _ => f ++ [NL]
    | _ => uptoLastNL f

/-- `appendEvents`: repair, then one write(2) with all lines of the batch -/
def appendFile (classify : Bytes → LineClass) (encode : Event → Bytes) (f : Bytes) (evs : List Event) : Bytes :=
  repairTail classify f ++ linesOf encode evs

/-- the same write cut short after `k` bytes of the batch (process killed inside write(2)) -/
def appendTorn (classify : Bytes → LineClass) (encode : Event → Bytes) (f : Bytes) (evs : List Event) (k : Nat) : Bytes :=
  repairTail classify f ++ (linesOf encode evs).take k

/-- `replaceEventsAtomically`: the log name points to a complete new file (or still to the old one) -/
def replaceFile (encode : Event → Bytes) (evs : List Event) : Bytes := linesOf encode evs


/-! ### a lock-free reader, read by read

`readEvents` does not get the file in one piece: the scanner issues `read(2)` calls one after the other while writers go on.
What the reader ends up with is a function of the successive contents of *the file it opened* (an inode: a rename gives the name to a
new file and leaves this one alone) and of how much each `read` returned. -/

/-- one `read(2)` of at most `n` bytes at offset `off` from content `f` -/
def readAt (f : Bytes) (off n : Nat) : Bytes := (f.drop off).take n

/-- the bytes a reader collects: its i-th read finds the open file with content `versions[i]` and asks for `sizes[i]` bytes -/
def chunkedRead : List (Bytes × Nat) → Bytes → Bytes
  | [], acc => acc
  | (f, n) :: rest, acc => chunkedRead rest (acc ++ readAt f acc.length n)

/-- what a writer may do to a file that readers may have open: only add bytes at its end (`appendEvents`' single write, the '\n' that
    completes an unterminated final event) — never change or remove bytes that are there.  Dropping a torn fragment and every rewrite
    (`plan`, `compact`) go to a *new* file that is renamed over the log. -/
def GrowsOnly : List Bytes → Prop
  | [] => True
  | [_] => True
  | a :: b :: rest => a <+: b ∧ GrowsOnly (b :: rest)

end Ergo.Storage
