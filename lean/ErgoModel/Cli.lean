/-
  ErgoModel.Cli — from a parsed command line + stdin to pre-validation and the list of lock
  sections (commands_create.go, commands_work.go RunSet/RunClaim/RunSequence/RunPrune/RunCompact,
  commands_plan.go, plan_input.go, json_input.go validate, body_stdin.go buildFlagUpdates).
-/
import ErgoModel.Command
namespace Ergo

/-- `TaskInput` after strict decoding -/
structure TaskInput where
  title : Option String := none
  body  : Option String := none
  epic  : Option String := none
  state : Option String := none
  claim : Option String := none
  resultPath    : Option String := none
  resultSummary : Option String := none
  deriving DecidableEq, Repr, Inhabited

/-- the per-command flags of `new task` / `new epic` / `set` (empty string = not given) -/
structure Flags where
  title : String := ""
  body  : String := ""
  epic  : String := ""
  state : String := ""
  claim : String := ""
  resultPath    : String := ""
  resultSummary : String := ""
  deriving DecidableEq, Repr, Inhabited

/-- everything the input-mode selection looks at -/
structure RawInput where
  bodyStdin : Bool := false
  piped     : Bool := true              -- stdin is not a character device
  flags     : Flags := {}
  stdinText : String := ""             -- stdin as text (body in --body-stdin mode)
  json      : Option TaskInput := none  -- strict decode of stdin; none = empty / malformed / unknown key / two values
  deriving Repr, Inhabited

/-- `(*TaskInput).validate` — accepted or not (the field-level messages are not modelled) -/
def TaskInput.valid (t : TaskInput) (requireTitle isEpic : Bool) : Bool :=
  let blank (o : Option String) := match o with | some s => Text.isBlank s | none => false
  let hasTitle := match t.title with | some s => !Text.isBlank s | none => false
  (if requireTitle then hasTitle else !blank t.title) &&
  !blank t.body &&
  (match t.state with | some s => (St.ofString s).valid | none => true) &&
  !(match t.state with
    | some s => (s == "doing" || s == "error") && t.claim == some ""
    | none => false) &&
  (t.resultPath.isSome == t.resultSummary.isSome) &&
  !(isEpic && (t.epic.isSome || t.state.isSome || t.claim.isSome))

def optNE (s : String) : Option String := if s == "" then none else some s

/-- `buildFlagUpdates` -/
def flagUpdates (f : Flags) : SetReq :=
  { u := { title := optNE (Text.trimSpace f.title), epic := optNE f.epic, state := optNE f.state, claim := optNE f.claim },
    resultPath := optNE f.resultPath, resultSummary := optNE f.resultSummary }

/-- `ToKeyValueMap` -/
def TaskInput.toSetReq (t : TaskInput) : SetReq :=
  { u := { title := t.title, body := t.body, epic := t.epic, state := t.state, claim := t.claim },
    resultPath := t.resultPath, resultSummary := t.resultSummary }

structure PlanTask where
  title : Option String := none
  body  : Option String := none
  after : List String := []
  deriving DecidableEq, Repr, Inhabited

structure PlanInput where
  title : Option String := none
  body  : Option String := none
  tasks : List PlanTask := []
  deriving DecidableEq, Repr, Inhabited

/-- one `withLock` closure; every mutating command is exactly one -/
inductive Sec where
  | create (isEpic : Bool) (epicId title body : String) (follow : SetReq)
  | update (id : Id) (r : SetReq)
  | links (unlink : Bool) (edges : List (Id × Id))
  | claimOldest (epic : Id)
  | prune (apply : Bool)
  | compact
  | plan (p : PlanInput)
  deriving DecidableEq, Repr, Inhabited

/-! ### plan validation (`(*PlanInput).Validate`) -/
def optBlank (o : Option String) : Bool := match o with | some s => Text.isBlank s | none => false
def optNonBlank (o : Option String) : Bool := match o with | some s => !Text.isBlank s | none => false

def planTitles (p : PlanInput) : List String := p.tasks.filterMap (·.title)
def planEdges (p : PlanInput) : List (String × String) :=
  p.tasks.flatMap fun t => match t.title with
    | none => []
    | some ti => t.after.map fun a => (ti, a)

def hasDup : List String → Bool
  | [] => false
  | x :: xs => xs.contains x || hasDup xs

def planValid (p : PlanInput) : Bool :=
  optNonBlank p.title && !optBlank p.body && !p.tasks.isEmpty &&
  p.tasks.all (fun t => optNonBlank t.title && !optBlank t.body) &&
  !hasDup (planTitles p) &&
  p.tasks.all (fun t => t.after.all fun a =>
      !Text.isBlank a && some a != t.title && (planTitles p).contains a) &&
  !(planEdges p).any (fun e => reachable (planEdges p) e.2 e.1)

/-! ### commands -/
inductive Request where
  | newTask (i : RawInput)
  | newEpic (i : RawInput)
  | set (id : Id) (i : RawInput)
  | claim (id : Id)
  | claimOldest (epic : Id)
  | sequence (args : List String)
  | plan (p : Option PlanInput)        -- none = parse error / no input
  | prune (yes : Bool)
  | compact
  deriving Repr, Inhabited

def newTaskHasFlagInput (f : Flags) : Bool :=
  Text.trimSpace f.title != "" || f.body != "" || f.epic != "" || f.state != "" || f.claim != ""
def setHasFlagInput (f : Flags) : Bool :=
  newTaskHasFlagInput f || f.resultPath != "" || f.resultSummary != ""

/-- pre-lock validation and the lock section of each command; `agent` is `--agent` -/
def sectionOf (agent : String) : Request → Except CmdErr Sec
  | .newTask i =>
    if i.bodyStdin then
      if i.flags.body != "" then .error .bodyExclusive
      else
        let title := Text.trimSpace i.flags.title
        if title == "" then .error .needTitle
        else
          let r := flagUpdates i.flags
          let r := { r with u := { r.u with title := none, epic := none } }
          if !r.paired then .error .resultPair
          else .ok (Sec.create false i.flags.epic title i.stdinText r)
    else if !i.piped && newTaskHasFlagInput i.flags then
      let title := Text.trimSpace i.flags.title
      if title == "" then .error .needTitle
      else
        let r := flagUpdates i.flags
        let r := { r with u := { r.u with title := none, epic := none } }
        if !r.paired then .error .resultPair
        else .ok (Sec.create false i.flags.epic title i.flags.body r)
    else match (if i.piped then i.json else none) with
      | none => .error .parseErr
      | some t =>
        if !t.valid true false then .error .validation
        else
          let r := t.toSetReq
          let r := { r with u := { r.u with title := none, body := none, epic := none } }
          let r := if t.state.isSome || t.claim.isSome || t.resultPath.isSome then r else {}
          if !r.paired then .error .resultPair
          else .ok (Sec.create false (t.epic.getD "") (t.title.getD "") (t.body.getD "") r)
  | .newEpic i =>
    if i.bodyStdin then
      if i.flags.body != "" then .error .bodyExclusive
      else
        let title := Text.trimSpace i.flags.title
        if title == "" then .error .needTitle
        else .ok (Sec.create true "" title i.stdinText {})
    else if !i.piped && Text.trimSpace i.flags.title != "" then
      .ok (Sec.create true "" (Text.trimSpace i.flags.title) i.flags.body {})
    else match (if i.piped then i.json else none) with
      | none => .error .parseErr
      | some t =>
        if !t.valid true true then .error .validation
        else .ok (Sec.create true "" (t.title.getD "") (t.body.getD "") {})
  | .set id i =>
    if id == "" then .error .usage
    else if i.bodyStdin then
      if i.flags.body != "" then .error .bodyExclusive
      else if Text.isBlank i.stdinText then .error .emptyBody
      else
        let r := flagUpdates i.flags
        let r := { r with u := { r.u with body := some i.stdinText } }
        if !r.paired then .error .resultPair else .ok (Sec.update id r)
    else if !i.piped && setHasFlagInput i.flags then
      let r := flagUpdates i.flags
      let r := if i.flags.body != "" then { r with u := { r.u with body := some i.flags.body } } else r
      if r.isEmpty then .error .noFields
      else if !r.paired then .error .resultPair else .ok (Sec.update id r)
    else match (if i.piped then i.json else none) with
      | none => .error .parseErr
      | some t =>
        if !t.valid false false then .error .validation
        else
          let r := t.toSetReq
          if r.isEmpty then .error .noFields
          else if !r.paired then .error .resultPair else .ok (Sec.update id r)
  | .claim id =>
    if id == "" then .error .usage
    else if agent == "" then .error .needAgent
    else .ok (Sec.update id { u := { claim := some agent, state := some "doing" } })
  | .claimOldest epic =>
    if agent == "" then .error .needAgent else .ok (Sec.claimOldest epic)
  | .sequence args =>
    match args with
    | [] | [_] => .error .usage
    | "rm" :: rest =>
      (match rest with
       | [a, b] => .ok (Sec.links true [(b, a)])
       | _ => .error .usage)
    | a :: rest =>
      .ok (Sec.links false (((a :: rest).zip rest).map fun (x, y) => (y, x)))
  | .plan p =>
    match p with
    | none => .error .parseErr
    | some p => if planValid p then .ok (Sec.plan p) else .error .validation
  | .prune yes => .ok (Sec.prune yes)
  | .compact => .ok Sec.compact

end Ergo
