/-
  ErgoModel.Text — the few `strings`/`unicode` functions ergo's logic depends on, over `List Char`
  (Lean `Char` = Unicode scalar value, i.e. exactly "valid Unicode text").
-/
namespace Ergo.Text

/-- Go's `unicode.IsSpace` -/
def isSpace (c : Char) : Bool :=
  let n := c.toNat
  n == 0x20 || (0x09 ≤ n && n ≤ 0x0D) || n == 0x85 || n == 0xA0 || n == 0x1680 ||
  (0x2000 ≤ n && n ≤ 0x200A) || n == 0x2028 || n == 0x2029 || n == 0x202F || n == 0x205F || n == 0x3000

def trimLeft (s : List Char) : List Char := s.dropWhile isSpace
def trimRight (s : List Char) : List Char := (s.reverse.dropWhile isSpace).reverse
/-- `strings.TrimSpace` -/
def trimSpaceL (s : List Char) : List Char := trimRight (trimLeft s)

def trimSpace (s : String) : String := String.ofList (trimSpaceL s.toList)
def isBlankL (s : List Char) : Bool := s.all isSpace
/-- `strings.TrimSpace(s) == ""` -/
def isBlank (s : String) : Bool := isBlankL s.toList

/-- `strings.Split(s, "\n")` -/
def splitNL : List Char → List (List Char)
  | [] => [[]]
  | c :: cs =>
    match splitNL cs with
    | [] => [[c]]     -- unreachable: splitNL never returns []
    | l :: ls => if c == '\n' then [] :: l :: ls else (c :: l) :: ls

def joinNL : List (List Char) → List Char
  | [] => []
  | [l] => l
  | l :: ls => l ++ '\n' :: joinNL ls

/-- `isLegacyHeading` (argument already trimmed or not — it trims again) -/
def isLegacyHeading (line : List Char) : Bool :=
  let l := trimSpaceL line
  match l with
  | [] => false
  | c :: _ => if c != '#' then false else !(isBlankL (l.dropWhile (· == '#')))

def deriveLoop : List (List Char) → Option (List Char × List Char)
  | [] => none
  | raw :: rest =>
    let t := trimSpaceL raw
    if t.isEmpty || isLegacyHeading t then deriveLoop rest
    else some (t, match rest with | [] => [] | _ => joinNL rest)

/-- `deriveTitleAndBodyFromLegacy` -/
def deriveTitleAndBodyL (body : List Char) : List Char × List Char :=
  match deriveLoop (splitNL body) with
  | some r => r
  | none => if isBlankL body then ("(untitled)".toList, []) else ("(untitled)".toList, body)

def deriveTitleAndBody (body : String) : String × String :=
  let (t, b) := deriveTitleAndBodyL body.toList
  (String.ofList t, String.ofList b)

end Ergo.Text
