/-
  ErgoModel.Files — the store directory at system-call granularity for the one writer inside its lock section
  (storage.go `appendEvents`, `repairTornTail`, `writeEventsFile`, `replaceEventsAtomically`): two names, the log and
  `<log>.tmp`; descriptors with an offset; `write(2)` at the descriptor's offset, or at the end of the file under `O_APPEND`;
  `rename(2)` gives the log's name to the temporary file.  The writer may be killed between any two calls; a killed rewrite
  leaves its temporary file behind, and the next rewrite finds it.

  ErgoModel.Storage describes the *results* (`replaceFile` = the new lines, `appendFile` = repaired file ++ the batch);
  ErgoProofs/Lemmas/FilesThm.lean shows that the call sequences ergo issues produce exactly those results from every directory
  state — and which open flags that depends on: `O_TRUNC` on the temporary file, `O_APPEND` on the log.  The flags are a T3
  obligation on every traced program (`Program.Call.openBad`).
-/
import ErgoModel.Storage
namespace Ergo.Files
open Ergo.Storage (Bytes)

/-- the two names in `.ergo/` a writer touches -/
structure Dir where
  log : Option Bytes                -- `none`: no such file
  tmp : Option Bytes                -- what an earlier, killed rewrite left under `<log>.tmp`, if anything
  deriving DecidableEq, Repr

/-- `data` written at offset `off` of a file (a gap is filled with zeros) -/
def splice (f : Bytes) (off : Nat) (data : Bytes) : Bytes :=
  f.take off ++ List.replicate (off - f.length) 0 ++ data ++ f.drop (off + data.length)

inductive Op where
  | openTmp (trunc : Bool)          -- open(tmp, O_CREAT|O_WRONLY[|O_TRUNC]): a descriptor at offset 0
  | writeTmp (data : Bytes)         -- write(2) on it: at the offset, which advances
  | renameTmp                       -- rename(tmp, log)
  | openLog (append : Bool)         -- open(log, O_CREAT|O_RDWR[|O_APPEND]): a descriptor at offset 0
  | writeLog (data : Bytes)         -- write(2) on it: at the end of the file under O_APPEND, else at the offset
  | seekEnd                         -- lseek(fd, 0, SEEK_END) on the log's descriptor
  | ensureLog (trunc : Bool)        -- another process's `init`: ensureFileExists(log) found it missing at some earlier moment and now does
                                    -- open(log, O_WRONLY|O_CREAT[|O_TRUNC]) ; close
  deriving DecidableEq, Repr

/-- the writer's descriptors -/
structure Fds where
  tmpOff : Nat := 0
  logAppend : Bool := true
  logOff : Nat := 0
  deriving DecidableEq, Repr

structure St where
  dir : Dir
  fds : Fds := {}
  deriving DecidableEq, Repr

def step (s : St) : Op → St
  | .openTmp trunc =>
    { s with dir := { s.dir with tmp := some (if trunc then [] else s.dir.tmp.getD []) }, fds := { s.fds with tmpOff := 0 } }
  | .writeTmp data =>
    { s with dir := { s.dir with tmp := some (splice (s.dir.tmp.getD []) s.fds.tmpOff data) },
             fds := { s.fds with tmpOff := s.fds.tmpOff + data.length } }
  | .renameTmp =>
    match s.dir.tmp with
    | some t => { s with dir := { log := some t, tmp := none } }
    | none => s                                                     -- ENOENT: nothing happens
  | .openLog append =>
    { s with dir := { s.dir with log := some (s.dir.log.getD []) }, fds := { s.fds with logAppend := append, logOff := 0 } }
  | .writeLog data =>
    let f := s.dir.log.getD []
    if s.fds.logAppend then
      { s with dir := { s.dir with log := some (f ++ data) }, fds := { s.fds with logOff := f.length + data.length } }
    else
      { s with dir := { s.dir with log := some (splice f s.fds.logOff data) }, fds := { s.fds with logOff := s.fds.logOff + data.length } }
  | .seekEnd => { s with fds := { s.fds with logOff := (s.dir.log.getD []).length } }
  | .ensureLog trunc => { s with dir := { s.dir with log := some (if trunc then [] else s.dir.log.getD []) } }

def run (s : St) (ops : List Op) : St := ops.foldl step s

/-- `replaceEventsAtomically` / the fragment-dropping branch of `repairTornTail`: the new content goes to the temporary file in
    any number of `write(2)` calls (bufio flushes, io.Copy chunks), then the rename -/
def rewrite (trunc : Bool) (chunks : List Bytes) : List Op :=
  [.openTmp trunc] ++ chunks.map .writeTmp ++ [.renameTmp]

/-- `appendEvents` on a log that ends in a newline (or is empty): one write of the whole batch -/
def appendClean (append : Bool) (batch : Bytes) : List Op := [.openLog append, .seekEnd, .writeLog batch]

/-- `appendEvents` on a log whose last line is a complete event without its newline: `repairTornTail` writes the `\n` on the
    descriptor (whose offset is still 0), then the batch follows -/
def appendUnterminated (append : Bool) (batch : Bytes) : List Op := [.openLog append, .writeLog [Storage.NL], .seekEnd, .writeLog batch]

/-- `appendEvents` on a log that ends in a torn fragment: the complete lines are copied to a new file that gets the log's name,
    the log is opened again, the batch is appended -/
def appendAfterTear (trunc append : Bool) (keptChunks : List Bytes) (batch : Bytes) : List Op :=
  [.openLog append] ++ rewrite trunc keptChunks ++ [.openLog append, .seekEnd, .writeLog batch]

end Ergo.Files

namespace Ergo.Files
open Ergo.Storage

/-- the calls `appendEvents` issues for a batch, by what `repairTornTail` finds at the end of the log -/
def appendProgram (classify : Bytes → LineClass) (f batch : Bytes) : List Op :=
  if f.isEmpty || endsWithNL f then appendClean true batch
  else match classify (dropCR (lastFragment f)) with
    | .ev _ => appendUnterminated true batch
    | _ => appendAfterTear true true [uptoLastNL f] batch

end Ergo.Files
