/-
  ErgoModel.Command — every mutating command as a list of *lock sections*; each section maps the
  graph replayed at lock time to `error | events to append | whole-file rewrite`.
  Transcribes commands_work.go (buildSetEvents, applySetUpdates, RunClaim*, RunSequence),
  storage.go (createTask, writeLinkEvent, writeResultEvent), prune.go, commands_create.go.
-/
import ErgoModel.Query
import ErgoModel.Generated.Facts
namespace Ergo

inductive CmdErr where
  | replay (e : ReplayErr)
  | readErr                 -- log unreadable (bad line / too long)
  | lockBusy
  | usage | noFields | parseErr | validation | needAgent
  | pruned (id : Id) | unknownTask (id : Id) | unknownId (id : Id)
  | epicNoState | epicNoClaim | implicitClaimNeedsAgent | emptyTitle | epicEpic
  | invalidState | badTransition | claimInvariant
  | unknownEpic | notEpic | idExhausted
  | depSelf | depKinds | depCycle
  | noReady
  | resultPair | resultEpic | resultSummary | resultPath (why : String)
  | bodyExclusive | needTitle | emptyBody | conflictingFlags | noSuchEpic
  deriving DecidableEq, Repr, Inhabited

/-- `validateTransition` over the table regenerated from model.go -/
def validTransition (frm to : St) : Bool :=
  frm == to ||
  match Gen.validTransitions.lookup frm.toString with
  | none => false
  | some l => l.contains to.toString

/-- `validateClaimInvariant` over the regenerated rule -/
def claimInvariantOk (st : St) (claimedBy : String) : Bool :=
  if Gen.claimRequired.contains st.toString then claimedBy != ""
  else if Gen.claimForbidden.contains st.toString then claimedBy == ""
  else true

/-- `map[string]string` restricted to the keys any caller can produce -/
structure Updates where
  title : Option String := none
  body  : Option String := none
  epic  : Option String := none
  state : Option String := none
  claim : Option String := none
  deriving DecidableEq, Repr, Inhabited

def Updates.isEmpty (u : Updates) : Bool :=
  u.title.isNone && u.body.isNone && u.epic.isNone && u.state.isNone && u.claim.isNone

/-- `buildSetEvents` (commands_work.go:478-630), branch for branch. -/
def buildSetEvents (t : Task) (u : Updates) (agent : String) (now : Time) : Except CmdErr (List Event) := do
  let id := t.id
  -- implicit claim
  let claim ←
    if !t.isEpic && t.claimedBy == "" then
      match u.state, u.claim with
      | some s, none =>
        if s == "doing" || s == "error" then
          if agent == "" then throw .implicitClaimNeedsAgent else pure (some agent)
        else pure none
      | _, c => pure c
    else pure u.claim
  -- title
  let evTitle ← match u.title with
    | none => pure []
    | some s =>
      let s' := Text.trimSpace s
      if s' == "" then throw .emptyTitle else pure [Event.title id s' (some now)]
  -- body
  let evBody := match u.body with
    | none => []
    | some b => [Event.body id b (some now)]
  -- epic (no lookup!)
  let evEpic ← match u.epic with
    | none => pure []
    | some e => if t.isEpic then throw .epicEpic else pure [Event.epic id e (some now)]
  -- claim
  let claimWasSet := claim.isSome && !t.isEpic
  let claimValue := claim.getD ""
  let evClaim ← match claim with
    | none => pure []
    | some cv =>
      if t.isEpic then pure [] else
      if cv == "" then
        -- clearing the claim without a state change: the kept state must tolerate "unclaimed"
        if u.state.isNone && !claimInvariantOk t.st "" then throw .claimInvariant
        else pure [Event.unclaim id]
      else pure [Event.claim id cv (some now)]
  -- state
  let evState ← match u.state with
    | none => pure []
    | some s =>
      let st := St.ofString s
      if !st.valid then throw .invalidState
      else if !validTransition t.st st then throw .badTransition
      else
        let nc := if claimWasSet then claimValue else t.claimedBy
        let nc := if st.clearsClaim then "" else nc
        if !claimInvariantOk st nc then throw .claimInvariant
        else pure [Event.state id st (some now)]
  let evTrail ←
    if claimWasSet && claimValue != "" && u.state.isNone then
      if !validTransition t.st .doing then throw .badTransition else pure [Event.state id .doing (some now)]
    else pure []
  pure (evTitle ++ evBody ++ evEpic ++ evClaim ++ evState ++ evTrail)

/-! ## lock sections -/

/-- what a section does to the log file -/
inductive Write where
  | append (evs : List Event)      -- `appendEvents`: one write(2) per event
  | replace (evs : List Event)     -- `replaceEventsAtomically`: tmp + fsync + rename
  deriving DecidableEq, Repr, Inhabited

/-- the set section of `applySetUpdates` -/
def secSet (g : Graph) (id : Id) (u : Updates) (agent : String) (now : Time) : Except CmdErr Write := do
  if g.tombed id then throw (.pruned id)
  match g.find? id with
  | none => throw (.unknownTask id)
  | some t =>
    if t.isEpic && u.state.isSome then throw .epicNoState
    if t.isEpic && u.claim.isSome then throw .epicNoClaim
    -- an epic assignment must name a live epic ("" unassigns)
    match u.epic with
    | none => pure ()
    | some e =>
      if e != "" && !t.isEpic then
        if g.tombed e then throw (.pruned e)
        match g.find? e with
        | none => throw .unknownEpic
        | some ep => if !ep.isEpic then throw .notEpic
    let evs ← buildSetEvents t u agent now
    pure (.append evs)

/-- ids `newShortID` refuses: live ones and pruned ones -/
def Graph.taken (g : Graph) (i : Id) : Bool := g.tombed i || g.has i

/-- first id of the RNG stream (at most 64 draws) that is not taken — `newShortID` -/
def pickId (live : Id → Bool) (ids : List Id) : Option (Id × List Id) :=
  go 64 ids
where go : Nat → List Id → Option (Id × List Id)
  | 0, _ => none
  | _, [] => none
  | n+1, i :: rest => if live i then go n rest else some (i, rest)

/-- `createTaskWithDir` -/
def secCreate (g : Graph) (isEpic : Bool) (epicId title body : String) (ids : List Id) (uuid : String)
    (now : Time) : Except CmdErr (Write × Id) := do
  if !isEpic && epicId != "" then
    match g.find? epicId with
    | none => throw .unknownEpic
    | some e => if !e.isEpic then throw .notEpic
  match pickId g.taken ids with
  | none => throw .idExhausted
  | some (id, _) =>
    pure (.append [Event.newItem isEpic id uuid (if isEpic then "" else epicId) .todo title body (some now)], id)

/-- `writeLinkEvent` -/
def secLink (g : Graph) (unlink : Bool) (f t : Id) : Except CmdErr Write := do
  if g.tombed f then throw (.pruned f)
  if g.tombed t then throw (.pruned t)
  match g.find? f, g.find? t with
  | none, _ => throw (.unknownId f)
  | some _, none => throw (.unknownId t)
  | some fi, some ti =>
    if f == t then throw .depSelf
    if fi.isEpic != ti.isEpic then throw .depKinds
    if !unlink && hasCycle g f t then throw .depCycle
    pure (.append [if unlink then Event.unlink f t true else Event.link f t true])

/-- the closure of `RunClaimOldestReady` -/
def secClaimOldest (g : Graph) (epicId agent : String) (now : Time) : Except CmdErr (Write × Task) :=
  match readyTasks g epicId with
  | [] => .error .noReady
  | t :: _ => .ok (.append [Event.claim t.id agent (some now), Event.state t.id .doing (some now)], t)

/-- `runPrune` -/
def secPrune (g : Graph) (apply : Bool) (agent : String) (now : Time) : Write × List Id :=
  let ids := pruneTargets g
  (.append (if apply then ids.map fun i => Event.tombstone i agent (some now) else []), ids)

/-- `validateResultSummary` -/
def resultSummaryOk (s : String) : Bool :=
  let t := Text.trimSpace s
  t != "" && !(t.toList.any fun c => c == '\n' || c == '\r') && t.utf8ByteSize ≤ 120

/-- outcome of `validateResultPath` + `captureResultEvidence` on the real file system,
    supplied by the environment (its path logic is modelled in ErgoModel.Path) -/
inductive PathOutcome where
  | ok (clean sha mtime git : String)
  | rejected (why : String)
  deriving DecidableEq, Repr, Inhabited

/-- `writeResultEvent` -/
def secResult (g : Graph) (id : Id) (summary : String) (po : PathOutcome) (now : Time) : Except CmdErr Write := do
  if g.tombed id then throw (.pruned id)
  match g.find? id with
  | none => throw (.unknownTask id)
  | some t =>
    if t.isEpic then throw .resultEpic
    if !resultSummaryOk summary then throw .resultSummary
    match po with
    | .rejected why => throw (.resultPath why)
    | .ok clean sha mtime git =>
      pure (.append [Event.result id (Text.trimSpace summary) clean sha mtime git (some now)])

/-- `RunCompact`'s closure -/
def secCompact (g : Graph) : Write := .replace (compactEvents g)

end Ergo
