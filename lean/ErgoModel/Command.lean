/-
  ErgoModel.Command — every mutating command as a list of *lock sections*; each section maps the
  graph replayed at lock time to `error | events to append | whole-file rewrite`.
  Transcribes commands_work.go (buildSetEvents, applySetUpdates, RunClaim*, RunSequence),
  storage.go (createTask, writeLinkEvent, writeResultEvent), prune.go, commands_create.go.
-/
import ErgoModel.Query
import ErgoModel.Generated.Facts
namespace Ergo

inductive CmdErr where
  | replay (e : ReplayErr)
  | readErr                 -- log unreadable (bad line / too long)
  | lockBusy
  | usage | noFields | parseErr | validation | needAgent
  | pruned (id : Id) | unknownTask (id : Id) | unknownId (id : Id)
  | epicNoState | epicNoClaim | implicitClaimNeedsAgent | emptyTitle | epicEpic
  | invalidState | badTransition | claimInvariant
  | unknownEpic | notEpic | idExhausted
  | depSelf | depKinds | depCycle
  | noReady
  | resultPair | resultEpic | resultSummary | resultPath (why : String)
  | bodyExclusive | needTitle | emptyBody | conflictingFlags | noSuchEpic
  deriving DecidableEq, Repr, Inhabited

/-- `validateTransition` over the table regenerated from model.go.  A Go state string is always
    represented by `St.ofString` of it, so table entries are compared as `St` values. -/
def validTransition (frm to : St) : Bool :=
  frm == to ||
  Gen.validTransitions.any fun (a, l) => St.ofString a == frm && l.any fun b => St.ofString b == to

/-- `validateClaimInvariant` over the regenerated rule -/
def claimInvariantOk (st : St) (claimedBy : String) : Bool :=
  if Gen.claimRequired.any (St.ofString · == st) then claimedBy != ""
  else if Gen.claimForbidden.any (St.ofString · == st) then claimedBy == ""
  else true

/-- `map[string]string` restricted to the keys any caller can produce -/
structure Updates where
  title : Option String := none
  body  : Option String := none
  epic  : Option String := none
  state : Option String := none
  claim : Option String := none
  deriving DecidableEq, Repr, Inhabited

def Updates.isEmpty (u : Updates) : Bool :=
  u.title.isNone && u.body.isNone && u.epic.isNone && u.state.isNone && u.claim.isNone

/-! `buildSetEvents` (commands_work.go), stage by stage in source order. -/

/-- implicit claim: moving an unclaimed task to doing/error without a claim key uses `--agent` -/
def implicitClaim (t : Task) (u : Updates) (agent : String) : Except CmdErr (Option String) :=
  if !t.isEpic && t.claimedBy == "" then
    match u.state, u.claim with
    | some s, none =>
      if s == "doing" || s == "error" then
        if agent == "" then .error .implicitClaimNeedsAgent else .ok (some agent)
      else .ok none
    | _, c => .ok c
  else .ok u.claim

def evTitle (id : Id) (now : Time) : Option String → Except CmdErr (List Event)
  | none => .ok []
  | some s =>
    let s' := Text.trimSpace s
    if s' == "" then .error .emptyTitle else .ok [Event.title id s' (some now)]

def evBody (id : Id) (now : Time) : Option String → List Event
  | none => []
  | some b => [Event.body id b (some now)]

/-- no lookup here; `updateEvents` checks the epic before calling -/
def evEpic (t : Task) (now : Time) : Option String → Except CmdErr (List Event)
  | none => .ok []
  | some e => if t.isEpic then .error .epicEpic else .ok [Event.epic t.id e (some now)]

/-- claim / unclaim; clearing the claim without a state change needs a state that tolerates "unclaimed" -/
def evClaim (t : Task) (stateGiven : Bool) (now : Time) : Option String → Except CmdErr (List Event)
  | none => .ok []
  | some cv =>
    if t.isEpic then .ok []
    else if cv == "" then
      if !stateGiven && !claimInvariantOk t.st "" then .error .claimInvariant else .ok [Event.unclaim t.id]
    else .ok [Event.claim t.id cv (some now)]

/-- explicit state: valid name, allowed transition, claim rule for the resulting claimant -/
def evState (t : Task) (claim : Option String) (now : Time) : Option String → Except CmdErr (List Event)
  | none => .ok []
  | some s =>
    let st := St.ofString s
    if !st.valid then .error .invalidState
    else if !validTransition t.st st then .error .badTransition
    else
      let nc := if claim.isSome && !t.isEpic then claim.getD "" else t.claimedBy
      let nc := if st.clearsClaim then "" else nc
      if !claimInvariantOk st nc then .error .claimInvariant else .ok [Event.state t.id st (some now)]

/-- a non-empty claim without a state implies state=doing, through the transition table -/
def evTrail (t : Task) (claim : Option String) (stateGiven : Bool) (now : Time) : Except CmdErr (List Event) :=
  if claim.isSome && !t.isEpic && claim.getD "" != "" && !stateGiven then
    if !validTransition t.st .doing then .error .badTransition else .ok [Event.state t.id .doing (some now)]
  else .ok []

/-- `buildSetEvents` -/
def buildSetEvents (t : Task) (u : Updates) (agent : String) (now : Time) : Except CmdErr (List Event) := do
  let claim ← implicitClaim t u agent
  let e1 ← evTitle t.id now u.title
  let e2 := evBody t.id now u.body
  let e3 ← evEpic t now u.epic
  let e4 ← evClaim t u.state.isSome now claim
  let e5 ← evState t claim now u.state
  let e6 ← evTrail t claim u.state.isSome now
  pure (e1 ++ e2 ++ e3 ++ e4 ++ e5 ++ e6)

/-! ## lock sections

Since the fix commits "make sequence all-or-nothing", "apply set's result attachment and field
updates in one lock section" and "create a task and apply its initial state/claim in one lock
section", every mutating command is exactly one `withLock` closure. -/

/-- what a section does to the log file -/
inductive Write where
  | append (evs : List Event)      -- `appendEvents`
  | replace (evs : List Event)     -- `replaceEventsAtomically`: tmp + fsync + rename
  deriving DecidableEq, Repr, Inhabited

/-- the `updates` map plus the two result keys (after `splitResultUpdates`) -/
structure SetReq where
  u : Updates := {}
  resultPath    : Option String := none
  resultSummary : Option String := none
  deriving DecidableEq, Repr, Inhabited

def SetReq.isEmpty (r : SetReq) : Bool := r.u.isEmpty && r.resultPath.isNone && r.resultSummary.isNone
/-- `splitResultUpdates`: the two result keys must come together -/
def SetReq.paired (r : SetReq) : Bool := r.resultPath.isSome == r.resultSummary.isSome

/-- `validateResultSummary` -/
def resultSummaryOk (s : String) : Bool :=
  let t := Text.trimSpace s
  t != "" && !(t.toList.any fun c => c == '\n' || c == '\r') && t.utf8ByteSize ≤ 120

/-- outcome of `validateResultPath` + `captureResultEvidence` on the real file system,
    supplied by the environment (its path logic is modelled in ErgoModel.Path) -/
inductive PathOutcome where
  | ok (clean sha mtime git : String)
  | rejected (why : String)
  deriving DecidableEq, Repr, Inhabited

/-- `buildResultEvent` -/
def resultEvent (t : Task) (summary : String) (po : PathOutcome) (now : Time) : Except CmdErr Event := do
  if t.isEpic then throw .resultEpic
  if !resultSummaryOk summary then throw .resultSummary
  match po with
  | .rejected why => throw (.resultPath why)
  | .ok clean sha mtime git => pure (Event.result t.id (Text.trimSpace summary) clean sha mtime git (some now))

/-- `buildUpdateEvents`: result attachment and/or field updates for one item, validated against `g` -/
def updateEvents (g : Graph) (t : Task) (r : SetReq) (agent : String) (po : PathOutcome) (now : Time) :
    Except CmdErr (List Event) := do
  let evRes ← match r.resultPath, r.resultSummary with
    | some _, some s => (resultEvent t s po now).map fun e => [e]
    | _, _ => pure []
  if r.u.isEmpty then return evRes
  if t.isEpic && r.u.state.isSome then throw .epicNoState
  if t.isEpic && r.u.claim.isSome then throw .epicNoClaim
  -- an epic assignment must name a live epic ("" unassigns)
  match r.u.epic with
  | none => pure ()
  | some e =>
    if e != "" && !t.isEpic then
      if g.tombed e then throw (.pruned e)
      match g.find? e with
      | none => throw .unknownEpic
      | some ep => if !ep.isEpic then throw .notEpic
  let evs ← buildSetEvents t r.u agent now
  pure (evRes ++ evs)

/-- the closure of `applySetUpdates` -/
def secUpdate (g : Graph) (id : Id) (r : SetReq) (agent : String) (po : PathOutcome) (now : Time) : Except CmdErr Write := do
  if g.tombed id then throw (.pruned id)
  match g.find? id with
  | none => throw (.unknownTask id)
  | some t => (updateEvents g t r agent po now).map .append

/-- ids `newShortID` refuses: live ones and pruned ones -/
def Graph.taken (g : Graph) (i : Id) : Bool := g.tombed i || g.has i

/-- first id of the RNG stream (at most 64 draws) that is not taken — `newShortID` -/
def pickId (live : Id → Bool) (ids : List Id) : Option (Id × List Id) :=
  go 64 ids
where go : Nat → List Id → Option (Id × List Id)
  | 0, _ => none
  | _, [] => none
  | n+1, i :: rest => if live i then go n rest else some (i, rest)

/-- the item exactly as replay will create it -/
def freshTask (isEpic : Bool) (id uuid epicId title body : String) (now : Time) : Task :=
  { id, uuid, epicId, isEpic, st := .todo, title, body, claimedBy := "", createdAt := now, updatedAt := now,
    results := [], cTitle := title, cBody := body, cSt := .todo, cEpic := epicId,
    lastState := 0, lastClaim := 0, lastTitle := 0, lastBody := 0, lastEpic := 0 }

/-- `createTaskWithDir`: create plus the follow-up updates given at creation, one section -/
def secCreate (g : Graph) (isEpic : Bool) (epicId title body : String) (follow : SetReq) (ids : List Id) (uuid : String)
    (agent : String) (po : PathOutcome) (now : Time) : Except CmdErr (Write × Id) := do
  if !isEpic && epicId != "" then
    match g.find? epicId with
    | none => throw .unknownEpic
    | some e => if !e.isEpic then throw .notEpic
  match pickId g.taken ids with
  | none => throw .idExhausted
  | some (id, _) =>
    let eid := if isEpic then "" else epicId
    let ev := Event.newItem isEpic id uuid eid .todo title body (some now)
    let more ← if follow.isEmpty then pure [] else updateEvents g (freshTask isEpic id uuid eid title body now) follow agent po now
    pure (.append (ev :: more), id)

/-- one edge of `writeLinkEvents`, against the deps accumulated so far -/
def linkCheck (g : Graph) (unlink : Bool) (f t : Id) : Except CmdErr Unit := do
  if g.tombed f then throw (.pruned f)
  if g.tombed t then throw (.pruned t)
  match g.find? f, g.find? t with
  | none, _ => throw (.unknownId f)
  | some _, none => throw (.unknownId t)
  | some fi, some ti =>
    if f == t then throw .depSelf
    if fi.isEpic != ti.isEpic then throw .depKinds
    if !unlink && hasCycle g f t then throw .depCycle

def linkEvents (g : Graph) (unlink : Bool) : List (Id × Id) → Except CmdErr (List Event)
  | [] => .ok []
  | (f, t) :: rest => do
    linkCheck g unlink f t
    let g' := if unlink then g else { g with deps := g.deps ++ [(f, t)] }
    let evs ← linkEvents g' unlink rest
    pure ((if unlink then Event.unlink f t true else Event.link f t true) :: evs)

/-- `writeLinkEvents`: all edges of one `sequence` command -/
def secLinks (g : Graph) (unlink : Bool) (edges : List (Id × Id)) : Except CmdErr Write :=
  (linkEvents g unlink edges).map .append

/-- the closure of `RunClaimOldestReady` -/
def secClaimOldest (g : Graph) (epicId agent : String) (now : Time) : Except CmdErr (Write × Task) :=
  match readyTasks g epicId with
  | [] => .error .noReady
  | t :: _ => .ok (.append [Event.claim t.id agent (some now), Event.state t.id .doing (some now)], t)

/-- `runPrune` -/
def secPrune (g : Graph) (apply : Bool) (agent : String) (now : Time) : Write × List Id :=
  let ids := pruneTargets g
  (.append (if apply then ids.map fun i => Event.tombstone i agent (some now) else []), ids)

/-- `RunCompact`'s closure -/
def secCompact (g : Graph) : Write := .replace (compactEvents g)

end Ergo
