/-
  ErgoModel.Json — Go's encoding/json *string* codec (encode.go appendString, decode.go unquote), the part of the
  JSON machinery that titles and bodies travel through.  Strings are `List Char` (Unicode scalar values).
-/
namespace Ergo.Json

def hexDigit (n : Nat) : Char := if n < 10 then Char.ofNat (48 + n) else Char.ofNat (87 + n)   -- 0-9a-f

/-- `\u00XX` for a code point below 0x100 / `\uXXXX` in general (4 lowercase hex digits) -/
def u4 (n : Nat) : List Char :=
  ['\\', 'u', hexDigit (n / 4096 % 16), hexDigit (n / 256 % 16), hexDigit (n / 16 % 16), hexDigit (n % 16)]

/-- one character of `appendString` -/
def encodeChar (escapeHTML : Bool) (c : Char) : List Char :=
  let n := c.toNat
  if c == '"' then ['\\', '"']
  else if c == '\\' then ['\\', '\\']
  else if n == 8 then ['\\', 'b']
  else if n == 12 then ['\\', 'f']
  else if n == 10 then ['\\', 'n']
  else if n == 13 then ['\\', 'r']
  else if n == 9 then ['\\', 't']
  else if n < 32 then u4 n
  else if escapeHTML && (c == '<' || c == '>' || c == '&') then u4 n
  else if n == 0x2028 || n == 0x2029 then u4 n
  else [c]

/-- the text between the quotes -/
def encodeBody (escapeHTML : Bool) (s : List Char) : List Char := s.flatMap (encodeChar escapeHTML)

/-- `appendString`: a JSON string literal -/
def encodeString (escapeHTML : Bool) (s : List Char) : List Char := '"' :: encodeBody escapeHTML s ++ ['"']

def hexVal (c : Char) : Option Nat :=
  let n := c.toNat
  if 48 ≤ n ∧ n ≤ 57 then some (n - 48)
  else if 97 ≤ n ∧ n ≤ 102 then some (n - 87)
  else if 65 ≤ n ∧ n ≤ 70 then some (n - 55)
  else none

def hex4 (a b c d : Char) : Option Nat := do
  let a ← hexVal a; let b ← hexVal b; let c ← hexVal c; let d ← hexVal d
  pure (a * 4096 + b * 256 + c * 16 + d)

def replacement : Char := Char.ofNat 0xFFFD

/-- a scalar value from a `\uXXXX` escape; lone surrogates become U+FFFD as in Go -/
def scalarOf (n : Nat) : Char := if n < 0xD800 ∨ (0xDFFF < n ∧ n < 0x110000) then Char.ofNat n else replacement

/-- does the text start with `\uXXXX` for a low surrogate?  returns its value and the rest -/
def lowSurrogate? : List Char → Option (Nat × List Char)
  | '\\' :: 'u' :: a :: b :: c :: d :: r =>
    match hex4 a b c d with
    | some lo => if 0xDC00 ≤ lo ∧ lo < 0xE000 then some (lo, r) else none
    | none => none
  | _ => none

theorem lowSurrogate?_length {l r : List Char} {lo : Nat} (h : lowSurrogate? l = some (lo, r)) : r.length < l.length := by
  unfold lowSurrogate? at h
  split at h
  · split at h
    · split at h
      · injection h with h; injection h with _ h; subst h; simp only [List.length_cons]; omega
      · cases h
    · cases h
  · cases h

/-- `unquote`'s loop over the text between the quotes; `none` = not a valid string body -/
def decodeBody : List Char → Option (List Char)
  | [] => some []
  | '\\' :: rest =>
    match rest with
    | '"' :: r => (decodeBody r).map ('"' :: ·)
    | '\\' :: r => (decodeBody r).map ('\\' :: ·)
    | '/' :: r => (decodeBody r).map ('/' :: ·)
    | 'b' :: r => (decodeBody r).map (Char.ofNat 8 :: ·)
    | 'f' :: r => (decodeBody r).map (Char.ofNat 12 :: ·)
    | 'n' :: r => (decodeBody r).map ('\n' :: ·)
    | 'r' :: r => (decodeBody r).map ('\r' :: ·)
    | 't' :: r => (decodeBody r).map ('\t' :: ·)
    | 'u' :: a :: b :: c :: d :: r =>
      match hex4 a b c d with
      | none => none
      | some hi =>
        -- a high surrogate followed by `\uDC00..\uDFFF` is one astral character
        if 0xD800 ≤ hi ∧ hi < 0xDC00 then
          match h : lowSurrogate? r with
          | some (lo, r') =>
            have : r'.length < r.length := lowSurrogate?_length h
            (decodeBody r').map (Char.ofNat (0x10000 + (hi - 0xD800) * 1024 + (lo - 0xDC00)) :: ·)
          | none => (decodeBody r).map (replacement :: ·)
        else (decodeBody r).map (scalarOf hi :: ·)
    | _ => none
  | c :: rest =>
    if c == '"' || c.toNat < 32 then none else (decodeBody rest).map (c :: ·)
termination_by l => l.length
decreasing_by all_goals simp_wf <;> omega

/-- decode a JSON string literal -/
def decodeString : List Char → Option (List Char)
  | '"' :: rest =>
    match rest.reverse with
    | '"' :: revBody =>
      -- the closing quote must not itself be escaped: handled by decodeBody rejecting a raw '"' inside
      decodeBody revBody.reverse
    | _ => none
  | _ => none

end Ergo.Json
