//go:build verif

// Verification harness exports (injected with `go build -tags verif -overlay`; never part of /repo).
// Gives /verif's differential driver in-package access to ergo's unexported functions and makes
// crypto/rand scriptable so ids are reproducible.
package ergo

import (
	"bytes"
	crand "crypto/rand"
	"encoding/hex"
	"encoding/json"
	"io"
	"math/big"
	"os"
	"sort"
	"strconv"
	"time"
)

// ---- scriptable RNG ------------------------------------------------------------------------

type verifRand struct {
	script []byte
	state  uint64
}

func (r *verifRand) Read(p []byte) (int, error) {
	for i := range p {
		if len(r.script) > 0 {
			p[i] = r.script[0]
			r.script = r.script[1:]
			continue
		}
		r.state += 0x9e3779b97f4a7c15
		z := r.state
		z = (z ^ (z >> 30)) * 0xbf58476d1ce4e5b9
		z = (z ^ (z >> 27)) * 0x94d049bb133111eb
		z ^= z >> 31
		p[i] = byte(z)
	}
	return len(p), nil
}

func init() {
	seed := os.Getenv("VERIF_RAND")
	script := os.Getenv("VERIF_RAND_SCRIPT")
	if seed == "" && script == "" {
		return
	}
	r := &verifRand{}
	if seed != "" {
		n, _ := strconv.ParseUint(seed, 10, 64)
		r.state = n
	}
	if script != "" {
		b, _ := hex.DecodeString(script)
		r.script = b
	}
	crand.Reader = r
}

// ---- canonical forms -----------------------------------------------------------------------

var verifEpochOffset = big.NewInt(62135596800)

// VerifTime renders a time as decimal nanoseconds since Go's zero time.
func VerifTime(t time.Time) string {
	secs := big.NewInt(t.Unix())
	secs.Add(secs, verifEpochOffset)
	secs.Mul(secs, big.NewInt(1000000000))
	secs.Add(secs, big.NewInt(int64(t.Nanosecond())))
	return secs.String()
}

func verifParsedTime(s string) any {
	t, err := parseTime(s)
	if err != nil {
		return nil
	}
	return VerifTime(t)
}

type J = map[string]any

// VerifCanonEvent turns one raw event into the wire form the Lean model reads.
func VerifCanonEvent(e Event) J {
	bad := J{"k": "bad"}
	switch e.Type {
	case "new_task", "new_epic":
		var d NewTaskEvent
		if json.Unmarshal(e.Data, &d) != nil {
			return bad
		}
		return J{"k": "new", "epic": e.Type == "new_epic", "id": d.ID, "uuid": d.UUID, "epic_id": d.EpicID, "st": d.State,
			"title": d.Title, "body": d.Body, "at": verifParsedTime(d.CreatedAt)}
	case "state":
		var d StateEvent
		if json.Unmarshal(e.Data, &d) != nil {
			return bad
		}
		return J{"k": "state", "id": d.ID, "st": d.NewState, "ts": verifParsedTime(d.TS)}
	case "claim":
		var d ClaimEvent
		if json.Unmarshal(e.Data, &d) != nil {
			return bad
		}
		return J{"k": "claim", "id": d.ID, "agent": d.AgentID, "ts": verifParsedTime(d.TS)}
	case "unclaim":
		var d UnclaimEvent
		if json.Unmarshal(e.Data, &d) != nil {
			return bad
		}
		return J{"k": "unclaim", "id": d.ID}
	case "link", "unlink":
		var d LinkEvent
		if json.Unmarshal(e.Data, &d) != nil {
			return bad
		}
		return J{"k": e.Type, "from": d.FromID, "to": d.ToID, "dep": d.Type == dependsLinkType}
	case "title":
		var d TitleUpdateEvent
		if json.Unmarshal(e.Data, &d) != nil {
			return bad
		}
		return J{"k": "title", "id": d.ID, "title": d.Title, "ts": verifParsedTime(d.TS)}
	case "body":
		var d BodyUpdateEvent
		if json.Unmarshal(e.Data, &d) != nil {
			return bad
		}
		return J{"k": "body", "id": d.ID, "body": d.Body, "ts": verifParsedTime(d.TS)}
	case "epic":
		var d EpicAssignEvent
		if json.Unmarshal(e.Data, &d) != nil {
			return bad
		}
		return J{"k": "epic", "id": d.ID, "epic_id": d.EpicID, "ts": verifParsedTime(d.TS)}
	case "tombstone":
		var d TombstoneEvent
		if json.Unmarshal(e.Data, &d) != nil {
			return bad
		}
		return J{"k": "tomb", "id": d.ID, "agent": d.AgentID, "ts": verifParsedTime(d.TS)}
	case "result":
		var d ResultEvent
		if json.Unmarshal(e.Data, &d) != nil {
			return bad
		}
		return J{"k": "result", "id": d.TaskID, "summary": d.Summary, "path": d.Path, "sha": d.Sha256AtAttach,
			"mtime": d.MtimeAtAttach, "git": d.GitCommitAtAttach, "ts": verifParsedTime(d.TS)}
	}
	return J{"k": "ignored"}
}

func VerifCanonEvents(evs []Event) []J {
	out := make([]J, 0, len(evs))
	for _, e := range evs {
		out = append(out, VerifCanonEvent(e))
	}
	return out
}

func nz(s []string) []string {
	if s == nil {
		return []string{}
	}
	return s
}

// VerifGraph renders a replayed graph in the same shape as Driver.Wire.graphJson.
func VerifGraph(g *Graph) J {
	tasks := []J{}
	for _, t := range sortedTasks(g.Tasks) {
		m := g.Meta[t.ID]
		if m == nil {
			m = &TaskMeta{}
		}
		results := []J{}
		for _, r := range t.Results {
			results = append(results, J{"summary": r.Summary, "path": r.Path, "sha": r.Sha256AtAttach, "mtime": r.MtimeAtAttach,
				"git": r.GitCommitAtAttach, "at": VerifTime(r.CreatedAt)})
		}
		tasks = append(tasks, J{"id": t.ID, "uuid": t.UUID, "epic_id": t.EpicID, "is_epic": t.IsEpic, "st": t.State,
			"title": t.Title, "body": t.Body, "claimed_by": t.ClaimedBy, "created_at": VerifTime(t.CreatedAt), "updated_at": VerifTime(t.UpdatedAt),
			"results": results, "c_title": m.CreatedTitle, "c_body": m.CreatedBody, "c_st": m.CreatedState, "c_epic": m.CreatedEpicID,
			"last_state": VerifTime(m.LastStateAt), "last_claim": VerifTime(m.LastClaimAt), "last_title": VerifTime(m.LastTitleAt),
			"last_body": VerifTime(m.LastBodyAt), "last_epic": VerifTime(m.LastEpicAt),
			"deps": nz(t.Deps), "rdeps": nz(t.RDeps), "ready": isReady(t, g), "blocked": isBlocked(t, g)})
	}
	deps := [][]string{}
	for _, f := range sortedMapKeys(g.Deps) {
		for _, to := range sortedKeys(g.Deps[f]) {
			deps = append(deps, []string{f, to})
		}
	}
	tombs := []string{}
	for id := range g.Tombstones {
		tombs = append(tombs, id)
	}
	sort.Strings(tombs)
	return J{"tasks": tasks, "deps": deps, "tombs": tombs}
}

func VerifReplay(evs []Event) (*Graph, error) { return replayEvents(evs) }
func VerifCompact(g *Graph) ([]Event, error)  { return compactEvents(g) }
func VerifPrune(g *Graph) []string            { return nz(selectPruneTargets(g)) }
func VerifHasCycle(g *Graph, f, t string) bool { return hasCycle(g, f, t) }
func VerifReadyOrder(g *Graph, epic string) []string {
	out := []string{}
	for _, t := range readyTasks(g, epic, kindTask) {
		out = append(out, t.ID)
	}
	return out
}
func VerifReadEvents(path string) ([]Event, error) { return readEvents(path) }
func VerifNewEvent(typ string, ts time.Time, payload any) Event {
	e, err := newEvent(typ, ts, payload)
	if err != nil {
		panic(err)
	}
	return e
}
func VerifFormatTime(t time.Time) string { return formatTime(t) }

// VerifBuildSetEvents runs the real buildSetEvents and classifies its error.
func VerifBuildSetEvents(t *Task, updates map[string]string, agent string, now time.Time) ([]Event, map[string]string, error) {
	return buildSetEvents(t.ID, t, updates, agent, now, identityBodyResolver)
}

// VerifTaskInputValid runs (*TaskInput).validate on a decoded document.
func VerifTaskInputValid(doc []byte, requireTitle, isEpic bool) (parsed bool, valid bool) {
	var in TaskInput
	dec := json.NewDecoder(bytes.NewReader(doc))
	dec.DisallowUnknownFields()
	if err := dec.Decode(&in); err != nil {
		return false, false
	}
	if err := dec.Decode(&struct{}{}); err != io.EOF {
		return false, false
	}
	return true, in.validate(requireTitle, isEpic) == nil
}

// VerifPlanValid runs the strict plan decode + Validate.
func VerifPlanValid(doc []byte) (parsed bool, valid bool) {
	var in PlanInput
	dec := json.NewDecoder(bytes.NewReader(doc))
	dec.DisallowUnknownFields()
	if err := dec.Decode(&in); err != nil {
		return false, false
	}
	if err := dec.Decode(&struct{}{}); err != io.EOF {
		return false, false
	}
	return true, in.Validate() == nil
}

// verifWithStdin runs f with os.Stdin reading doc from a regular file (what a redirected stdin is): the real ParseTaskInput /
// ParsePlanInput read os.Stdin themselves.
func verifWithStdin(doc []byte, f func()) {
	tmp, err := os.CreateTemp("", "ergo-verif-stdin-")
	if err != nil {
		panic(err)
	}
	defer os.Remove(tmp.Name())
	tmp.Write(doc)
	tmp.Seek(0, 0)
	old := os.Stdin
	os.Stdin = tmp
	defer func() { os.Stdin = old; tmp.Close() }()
	f()
}

func verifOpt(p *string) any {
	if p == nil {
		return nil
	}
	return *p
}

// VerifParseTaskInput: the real ParseTaskInput on the given stdin bytes.
func VerifParseTaskInput(doc []byte) J {
	var out J
	verifWithStdin(doc, func() {
		in, verr := ParseTaskInput()
		if verr != nil {
			out = J{"parsed": false}
			return
		}
		out = J{"parsed": true, "fields": J{"title": verifOpt(in.Title), "body": verifOpt(in.Body), "epic": verifOpt(in.Epic), "state": verifOpt(in.State),
			"claim": verifOpt(in.Claim), "result_path": verifOpt(in.ResultPath), "result_summary": verifOpt(in.ResultSummary)}}
	})
	return out
}

// VerifParsePlanInput: the real ParsePlanInput on the given stdin bytes.
func VerifParsePlanInput(doc []byte) J {
	var out J
	verifWithStdin(doc, func() {
		in, verr := ParsePlanInput()
		if verr != nil {
			out = J{"parsed": false}
			return
		}
		tasks := []J{}
		for _, t := range in.Tasks {
			after := []string{}
			after = append(after, t.After...)
			tasks = append(tasks, J{"title": verifOpt(t.Title), "body": verifOpt(t.Body), "after": after})
		}
		out = J{"parsed": true, "fields": J{"title": verifOpt(in.Title), "body": verifOpt(in.Body), "tasks": tasks}, "valid": in.Validate() == nil}
	})
	return out
}

// ---- storage (byte level) --------------------------------------------------------------------

func VerifAppendEvents(path string, evs []Event) error { return appendEvents(path, evs) }
func VerifReplaceEvents(path string, evs []Event) error { return replaceEventsAtomically(path, evs) }

// VerifClassifyLine says what readEvents makes of one physical line: "blank", "bad", or the canonical event.
func VerifClassifyLine(line []byte) any {
	trimmed := bytes.TrimSpace(line)
	if len(trimmed) == 0 {
		return "blank"
	}
	var e Event
	if err := json.Unmarshal(trimmed, &e); err != nil {
		return "bad"
	}
	return VerifCanonEvent(e)
}

func VerifValidateResultPath(repoDir, rel string) (string, error) { return validateResultPath(repoDir, rel) }
// the discovery every command goes through (ergoDir: the start directory from --dir or the cwd, then the upward walk)
func VerifResolveErgoDir(start string) (string, error) {
	if start == "" {
		return resolveErgoDir(start)
	}
	return ergoDir(GlobalOptions{StartDir: start})
}
func VerifGetEventsPath(dir string) string                        { return getEventsPath(dir) }
func VerifDeriveFileURL(rel, repoDir string) string               { return deriveFileURL(rel, repoDir) }

// ---- rendering -------------------------------------------------------------------------------

func VerifFormatTreeLine(prefix, connector string, showConnector bool, icon, id, title string, annotations []string, blocker string, isEpic bool, st string, ready bool, width int) string {
	return formatTreeLine(prefix, connector, showConnector, icon, id, title, annotations, blocker, &Task{ID: id, IsEpic: isEpic, State: st}, ready, false, width)
}
func VerifTruncateToWidth(s string, w int) string { return truncateToWidth(s, w) }
func VerifAbbreviate(s string, n int) string      { return abbreviate(s, n) }
func VerifVisibleLen(s string) int                { return visibleLen(s) }

type VerifRow struct {
	ID    string `json:"id"`
	Child bool   `json:"child"`
	Last  bool   `json:"last"`
}

// VerifRows flattens buildListRoots for a view into rows.
func VerifRows(g *Graph, showAll, readyOnly bool) []VerifRow {
	out := []VerifRow{}
	for _, root := range buildListRoots(g, showAll, readyOnly, "") {
		out = append(out, VerifRow{ID: root.task.ID})
		for i, c := range root.children {
			out = append(out, VerifRow{ID: c.task.ID, Child: true, Last: i == len(root.children)-1})
		}
	}
	return out
}

func VerifStats(g *Graph) []int {
	s := computeStatsForTasks(collectNonEpicTasks(g), g)
	return []int{s.ready, s.inProgress, s.blocked, s.errors, s.done, s.canceled}
}

func VerifTopoOrphans(g *Graph) []string {
	var ts []*Task
	for _, t := range g.Tasks {
		if !t.IsEpic && t.EpicID == "" {
			ts = append(ts, t)
		}
	}
	out := []string{}
	for _, t := range topoSortTasks(ts, g) {
		out = append(out, t.ID)
	}
	return out
}
