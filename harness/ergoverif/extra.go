//go:build verif

package main

import (
	"bufio"
	"bytes"
	"encoding/hex"
	"encoding/json"
	"os"
	"path/filepath"
	"regexp"
	"strconv"
	"strings"
	"syscall"
	"unicode/utf8"

	"github.com/mattn/go-runewidth"

	"github.com/sandover/ergo/internal/ergo"
)

// extra dispatches the subcommands added after the first round (kept separate so main.go stays small).
func extra(args []string) bool {
	switch args[0] {
	case "serve":
		serve()
		return true
	case "fn-ready-enum":
		fnReadyEnum()
		return true
	case "fn-render":
		fnRender(argU(args, 1, 1), int(argU(args, 2, 1500)))
		return true
	case "fn-path":
		fnPath(argU(args, 1, 1), int(argU(args, 2, 1500)))
		return true
	case "fn-json":
		fnJSON(argU(args, 1, 1), int(argU(args, 2, 2000)), len(args) > 3 && args[3] == "all")
		return true
	case "fn-storage":
		fnStorage(argU(args, 1, 1), int(argU(args, 2, 500)))
		return true
	case "fn-input":
		fnInput(argU(args, 1, 1), int(argU(args, 2, 1500)))
		return true
	case "fn-codec":
		fnCodec(argU(args, 1, 1), int(argU(args, 2, 500)))
		return true
	}
	return false
}

// serve answers one JSON request per line (used by the command-level harness).
func serve() {
	sc := bufio.NewScanner(os.Stdin)
	sc.Buffer(make([]byte, 0, 1<<20), 64<<20)
	for sc.Scan() {
		var req map[string]any
		if err := json.Unmarshal(sc.Bytes(), &req); err != nil {
			emit(J{"err": "bad request"})
			out.Flush()
			continue
		}
		switch req["op"] {
		case "canon":
			canon(req["path"].(string))
		case "graph":
			evs, err := ergo.VerifReadEvents(req["path"].(string))
			if err != nil {
				emit(J{"err": err.Error()})
				break
			}
			g, err := ergo.VerifReplay(evs)
			if err != nil {
				emit(J{"err": classifyReplayErr(err)})
				break
			}
			emit(J{"graph": ergo.VerifGraph(g), "events": ergo.VerifCanonEvents(evs), "n": len(evs)})
		case "taskinput":
			p, v := ergo.VerifTaskInputValid([]byte(req["doc"].(string)), req["require_title"] == true, req["is_epic"] == true)
			emit(J{"parsed": p, "valid": v})
		case "planinput":
			p, v := ergo.VerifPlanValid([]byte(req["doc"].(string)))
			emit(J{"parsed": p, "valid": v})
		default:
			emit(J{"err": "bad op"})
		}
		out.Flush()
	}
}

func argU(args []string, i int, def uint64) uint64 {
	if len(args) > i {
		if n, err := strconv.ParseUint(args[i], 10, 64); err == nil {
			return n
		}
	}
	return def
}

var lineNoRe = regexp.MustCompile(`:(\d+): (invalid JSON|git conflict markers)`)

func readAnswer(path string) J {
	evs, err := ergo.VerifReadEvents(path)
	if err != nil {
		m := err.Error()
		if strings.Contains(m, "event line too long") {
			return J{"err": "too_long"}
		}
		if mm := lineNoRe.FindStringSubmatch(m); mm != nil {
			n, _ := strconv.Atoi(mm[1])
			return J{"err": "bad_line", "line": n, "names_file": strings.HasPrefix(m, path)}
		}
		return J{"err": "other:" + m}
	}
	return J{"events": ergo.VerifCanonEvents(evs)}
}

// fnStorage: byte-level files → readEvents, then appendEvents on the same file → bytes afterwards.
func fnStorage(seed uint64, n int) {
	r := &rng{s: seed}
	dir, _ := os.MkdirTemp("", "ergo-verif-fs-")
	defer os.RemoveAll(dir)
	path := filepath.Join(dir, "plans.jsonl")
	junk := [][]byte{[]byte("<<<<<<< HEAD"), []byte("======="), []byte("{\"type\":\"state\",\"ts\":\"x\",\"data\""), []byte("   "), []byte("\t"), []byte("null"), []byte("42"),
		[]byte("[]"), []byte("{}"), []byte("{\"type\":5}"), []byte("\xff\xfe"), []byte("{\"type\":\"claim\",\"ts\":\"\",\"data\":{\"id\":\"A\"}} trailing"), []byte("\r"), []byte(" {\"type\":\"x\"} \r")}
	for i := 0; i < n; i++ {
		evs := genEvents(r)
		var file []byte
		if i%25 == 7 || i%25 == 19 {
			// a log spanning several 64 KiB blocks: the tail repair scans backwards block by block
			filler := ergo.VerifNewEvent("body", tsAt(1), ergo.BodyUpdateEvent{ID: "ZZZZZZ", Body: strings.Repeat("filler ", 90), TS: ergo.VerifFormatTime(tsAt(1))})
			fb, _ := json.Marshal(filler)
			target := 70000
			if i%25 == 19 {
				target = 140000
			}
			for len(file) < target {
				file = append(file, fb...)
				file = append(file, '\n')
			}
		}
		if i%25 == 13 || i%25 == 3 {
			// one event line longer than one (or two) 64 KiB blocks at the very end: the repair has to reassemble it across blocks
			n := 66000 + r.n(6000)
			if i%25 == 3 {
				n = 133000 + r.n(70000)
			}
			evs = append(evs, ergo.VerifNewEvent("body", tsAt(2), ergo.BodyUpdateEvent{ID: "ZZZZZZ", Body: strings.Repeat("0123456789abcdef", n/16), TS: ergo.VerifFormatTime(tsAt(2))}))
		}
		for _, e := range evs {
			b, _ := json.Marshal(e)
			switch c := r.n(100); {
			case c < 6:
				file = append(file, pick(r, junk)...)
				file = append(file, '\n')
			case c < 9:
				file = append(file, '\n')
			case c < 11:
				b = append(b, '\r')
			}
			file = append(file, b...)
			file = append(file, '\n')
		}
		tailMode := r.n(100)
		if i%25 == 13 || i%25 == 3 {
			tailMode = []int{35, 35, 35, 99, 10}[r.n(5)] // mostly: only the final newline is missing
		}
		switch c := tailMode; {
		case c < 30 && len(file) > 0: // torn at a random byte
			file = file[:r.n(len(file))]
		case c < 40 && len(file) > 0: // final newline missing
			file = file[:len(file)-1]
		case c < 45:
			file = append(file, pick(r, junk)...)
		case c < 48 && len(file) > 3: // bit flip
			file[r.n(len(file))] ^= 1 << uint(r.n(8))
		}
		os.WriteFile(path, file, 0644)
		// classification of every distinct physical line by the real decoder
		classes := J{}
		for _, ln := range bytes.Split(file, []byte{'\n'}) {
			for _, v := range [][]byte{ln, bytes.TrimSuffix(ln, []byte{'\r'})} {
				classes[hex.EncodeToString(v)] = ergo.VerifClassifyLine(v)
			}
		}
		ans := J{"read": readAnswer(path)}
		// now append a batch with the real writer
		// the batch: events as the commands build them (newEvent over the payload structs), so that the model can produce
		// the same bytes from the event's meaning alone
		var batch []ergo.Event
		for k := r.n(4); k > 0; k-- {
			batch = append(batch, genRealEvent(r))
		}
		enc := []J{}
		for _, e := range batch {
			b, _ := json.Marshal(e)
			enc = append(enc, J{"hex": hex.EncodeToString(b), "event": ergo.VerifCanonEvent(e), "ets": e.TS})
			classes[hex.EncodeToString(b)] = ergo.VerifClassifyLine(b)
		}
		if err := ergo.VerifAppendEvents(path, batch); err != nil {
			ans["append_err"] = err.Error()
		}
		after, _ := os.ReadFile(path)
		ans["after"] = hex.EncodeToString(after)
		ans["class_mismatch"] = []string{}
		ans["read_after"] = readAnswer(path)
		req := J{"op": "storage", "tag": i, "file": hex.EncodeToString(file), "classes": classes, "limit": 10 * 1024 * 1024, "append": enc}
		emit(J{"req": req, "go": ans})
	}
}

func cps(s string) []int {
	out := []int{}
	for _, r := range s {
		out = append(out, int(r))
	}
	return out
}

func marshalNoHTML(s string) string {
	var buf bytes.Buffer
	enc := json.NewEncoder(&buf)
	enc.SetEscapeHTML(false)
	enc.Encode(s)
	return strings.TrimSuffix(buf.String(), "\n")
}

func jsonCase(tag int, s string, lit string) {
	m, _ := json.Marshal(s)
	var dec string
	var decAns any
	if err := json.Unmarshal([]byte(lit), &dec); err != nil {
		decAns = nil
	} else {
		decAns = cps(dec)
	}
	req := J{"op": "json", "tag": tag, "s": cps(s), "lit": cps(lit)}
	emit(J{"req": req, "go": J{"enc_html": cps(string(m)), "enc_raw": cps(marshalNoHTML(s)), "dec": decAns,
		"trim": cps(strings.TrimSpace(s)), "blank": strings.TrimSpace(s) == ""}})
}

var jsonAlphabet = []rune{'a', 'Z', '0', ' ', '"', '\\', '/', '<', '>', '&', '\n', '\r', '\t', '\b', '\f', 0, 1, 0x1f, 0x7f, 0x80, 0x85, 0xa0, 0xe9,
	0x300, 0x301, 0x1680, 0x2000, 0x200a, 0x200b, 0x2028, 0x2029, 0x202f, 0x205f, 0x3000, 0xfeff, 0xfffd, 0xffff, 0xd7ff, 0xe000, 0x10000, 0x1f600, 0x10ffff, 0x65e5, '\v'}

func fnJSON(seed uint64, n int, all bool) {
	r := &rng{s: seed}
	tag := 0
	if all {
		for c := 0; c <= 0x10ffff; c++ {
			if c >= 0xd800 && c <= 0xdfff {
				continue
			}
			s := string(rune(c))
			m, _ := json.Marshal(s)
			jsonCase(tag, s, string(m))
			tag++
		}
		return
	}
	for i := 0; i < n; i++ {
		k := r.n(12)
		if r.p(3) {
			k = 2000 + r.n(3000)
		}
		rs := make([]rune, k)
		for j := range rs {
			if r.p(70) {
				rs[j] = pick(r, jsonAlphabet)
			} else {
				c := rune(r.n(0x110000))
				if c >= 0xd800 && c <= 0xdfff {
					c = 0x41
				}
				rs[j] = c
			}
		}
		s := string(rs)
		// a literal to decode: mostly the real encoding with some escapes rewritten, sometimes damaged
		m, _ := json.Marshal(s)
		lit := string(m)
		switch c := r.n(100); {
		case c < 25:
			lit = marshalNoHTML(s)
		case c < 45:
			lit = strings.NewReplacer("a", "\\u0061", "/", "\\/", "Z", "\\u005A", "\U0001F600", "\\ud83d\\ude00").Replace(lit)
		case c < 55:
			lit = "\"" + pick(r, []string{"\\ud800", "\\udc00x", "\\ud83dZ", "\\ud83d\\u0041", "\\uD83D\\uDE00", "\\x41", "\\u12", "\\", "a\"b", "tab\there", "\\u00zz", "\\ud83d\\ud83d\\ude00"}) + "\""
		case c < 60 && len(lit) > 2:
			lit = lit[:len(lit)-1]
		case c < 63:
			lit = lit[1:]
		}
		jsonCase(tag, s, lit)
		tag++
	}
}

var pathAtoms = []string{"/", "/", "/", ".", "..", "a", "b", "d", "f", ".ergo", ".ergox", "..x", "x..", "é", "", "sub", "deep", "nested", "...", " ",
	"?", "#", "%41", "a:b", "\\", "$&+,;=@", "~_-", "日本", "\U0001F600", "\"", "<>", "!*'()", "\t"}

func genPath(r *rng) string {
	n := 1 + r.n(7)
	var sb strings.Builder
	for i := 0; i < n; i++ {
		sb.WriteString(pick(r, pathAtoms))
		if r.p(45) {
			sb.WriteString("/")
		}
	}
	return sb.String()
}

func kindOf(p string) string {
	info, err := os.Stat(p)
	if err != nil {
		if os.IsNotExist(err) {
			return "missing"
		}
		// ENOTDIR and friends: the path cannot name anything
		return "missing"
	}
	switch {
	case info.IsDir():
		return "dir"
	case info.Mode().IsRegular():
		return "file"
	}
	return "other"
}

func classifyPathErr(err error) string {
	m := err.Error()
	switch {
	case strings.Contains(m, "must be relative"):
		return "absolute"
	case strings.Contains(m, "within project"):
		return "outside"
	case strings.Contains(m, "inside .ergo"):
		return "in_ergo"
	case strings.Contains(m, "does not exist"):
		return "missing"
	case strings.Contains(m, "not directory"), strings.Contains(m, "regular file"):
		return "not_file"
	case strings.Contains(m, "cannot access result file"):
		return "access"
	}
	return "other:" + m
}

func fnPath(seed uint64, n int) {
	r := &rng{s: seed}
	root, _ := os.MkdirTemp("", "ergo-verif-path-")
	root, _ = filepath.EvalSymlinks(root)
	defer os.RemoveAll(root)
	repo := filepath.Join(root, "proj")
	for _, d := range []string{"proj/.ergo", "proj/d", "proj/sub/deep", "proj/nested/.ergo", "proj/nested/x", "proj/sub/inner/.ergo", "proj/sub/inner/y", "proj/a b", "proj/filergo", "other",
		// directories whose *names* end in ".ergo": a project checked out as team.ergo (with its own store), a plain directory notes.ergo
		"proj/team.ergo/.ergo", "proj/team.ergo/src", "proj/notes.ergo/z"} {
		os.MkdirAll(filepath.Join(root, d), 0755)
	}
	for _, f := range []string{"proj/a", "proj/d/f", "proj/.ergox", "proj/..x", "proj/x..", "proj/é", "proj/...", "proj/ ", "proj/filergo/.ergo", "proj/.ergo/plans.jsonl", "other/secret"} {
		os.WriteFile(filepath.Join(root, f), []byte("x"), 0644)
	}
	syscall.Mkfifo(filepath.Join(repo, "fifo"), 0644)
	os.Symlink(filepath.Join(root, "other/secret"), filepath.Join(repo, "link"))
	// the whole tree for the model (absolute path → kind), symlinks followed
	tree := J{}
	filepath.Walk(root, func(p string, info os.FileInfo, err error) error {
		if err == nil {
			tree[p] = kindOf(p)
		}
		return nil
	})
	// the one path outside the tree the generator can name as a start: the model has to see what the OS sees there
	for _, q := range []string{"/etc", "/etc/passwd"} {
		tree[q] = kindOf(q)
	}
	for i := 0; i < n; i++ {
		p := genPath(r)
		if r.p(10) {
			p = pick(r, []string{"fifo", "link", "a", "d/f", "d", ".ergo/plans.jsonl", "sub/../a", "./a", "d//f", "../proj/a", "é", "a b", "", ".", "/etc/passwd", "nested/../a"})
		}
		vr, verr := ergo.VerifValidateResultPath(repo, p)
		var v any
		if verr != nil {
			v = J{"err": classifyPathErr(verr)}
		} else {
			v = J{"ok": vr}
		}
		ans := J{"clean": filepath.Clean(p), "dir": filepath.Dir(p), "base": filepath.Base(p), "abs": filepath.IsAbs(p),
			"join": filepath.Join(repo, p), "validate": v, "file_url": ergo.VerifDeriveFileURL(p, repo)}
		// discovery walk from a start spelled relative to a cwd inside the tree
		cwd := pick(r, []string{repo, filepath.Join(repo, "sub"), filepath.Join(repo, "sub/deep"), filepath.Join(repo, "nested/x"), root, filepath.Join(repo, ".ergo"), filepath.Join(repo, "filergo"),
			filepath.Join(repo, "team.ergo"), filepath.Join(repo, "team.ergo/src"), filepath.Join(repo, "notes.ergo")})
		start := pick(r, []string{".", "..", "../..", "sub", "sub/deep", ".ergo", "./.ergo/", cwd, cwd + "/", "team.ergo", "team.ergo/", "team.ergo/src", "notes.ergo", "notes.ergo/z",
			filepath.Join(repo, "team.ergo"), filepath.Join(repo, "team.ergo/.ergo"), filepath.Join(repo, "notes.ergo"), filepath.Join(repo, "sub/deep"), filepath.Join(repo, ".ergo"),
			filepath.Join(repo, "nested/x"), "nested", "nested/.ergo", "nosuch", filepath.Join(root, "other"), "filergo", p,
			// absolute spellings that are not clean: the walk has to start from the directory they *name*
			repo + "/sub/inner/..", repo + "/sub/inner/../", repo + "/sub/inner/y/../..", repo + "/sub/inner/./..", repo + "//sub//inner/../deep", cwd + "/..", cwd + "/../.", cwd + "/./",
			repo + "/nested/x/../..", repo + "/sub/inner/y/..", "inner/..", "sub/inner/..", "sub/inner/y/../.."})
		os.Chdir(cwd)
		rr, rerr := ergo.VerifResolveErgoDir(start)
		if rerr != nil {
			if strings.Contains(rerr.Error(), "exists but is not a directory") {
				ans["resolve"] = J{"err": "not_dir"}
			} else if strings.Contains(rerr.Error(), "no .ergo directory") {
				ans["resolve"] = J{"err": "not_found"}
			} else if strings.HasPrefix(rerr.Error(), "stat ") {
				ans["resolve"] = J{"err": "stat_err"}
			} else {
				ans["resolve"] = J{"err": "other:" + rerr.Error()}
			}
		} else {
			ans["resolve"] = J{"ok": rr}
		}
		req := J{"op": "path", "tag": i, "p": cps(p), "repo": cps(repo), "tree": tree, "cwd": cps(cwd), "start": cps(start)}
		emit(J{"req": req, "go": ans})
	}
	os.Chdir("/")
}

func cells(s string) [][]int {
	out := [][]int{}
	for _, r := range s {
		out = append(out, []int{int(r), runewidth.RuneWidth(r)})
	}
	return out
}

// single-rune grapheme clusters only: for those go-runewidth's StringWidth is the sum of RuneWidth, which is what the model's cells assume
var renderAlphabet = []rune{'a', 'b', 'Z', ' ', '-', '日', '本', '語', 0x1F600, 'é', 'ü', '⧗', '@', '…', 0xFF21, '✓', 'Ⓔ', 0x3042, '\t', '\n', 0x7f, 0x85}

func genText(r *rng, maxN int) string {
	n := r.n(maxN + 1)
	rs := make([]rune, n)
	for i := range rs {
		rs[i] = pick(r, renderAlphabet)
	}
	return string(rs)
}

func fnRender(seed uint64, n int) {
	r := &rng{s: seed}
	for i := 0; i < n; i++ {
		// (a) one row
		prefix := pick(r, []string{"", "", "│ ", "  "})
		connector := pick(r, []string{"├", "└"})
		show := r.p(50)
		isEpic := r.p(20)
		icon := pick(r, []string{"✓", "○", "◐", "·", "✗", "⚠"})
		if isEpic {
			icon = "Ⓔ"
		}
		title := genText(r, pick(r, []int{3, 12, 40, 120}))
		var anns []string
		if r.p(40) {
			anns = []string{"@" + genText(r, 14)}
		}
		blocker := ""
		if r.p(40) {
			blocker = "⧗ " + genText(r, pick(r, []int{5, 25, 60}))
		}
		width := pick(r, []int{14, 15, 16, 17, 18, 20, 24, 30, 40, 60, 80, 100, 132, 200, 240})
		if r.p(30) {
			width = 10 + r.n(240)
		}
		line := ergo.VerifFormatTreeLine(prefix, connector, show, icon, "ABCDEF", title, anns, blocker, isEpic, "todo", false, width)
		base := ""
		if show {
			base = prefix + connector + " "
		}
		base += icon + " "
		if isEpic {
			base += " "
		}
		ann := ""
		if len(anns) > 0 {
			ann = "  " + strings.Join(anns, "  ")
		}
		// (b) abbreviate
		ab := genText(r, 30)
		abN := pick(r, []int{0, 1, 2, 5, 20, 21})
		abOut := ergo.VerifAbbreviate(ab, abN)
		// (c) views of a replayed graph
		evs := genEvents(r)
		views := J{}
		if g, err := ergo.VerifReplay(evs); err == nil {
			views = J{"all": ergo.VerifRows(g, true, false), "active": ergo.VerifRows(g, false, false), "ready": ergo.VerifRows(g, false, true),
				"stats": ergo.VerifStats(g), "topo": ergo.VerifTopoOrphans(g)}
		}
		blens := []int{}
		for _, c := range ab {
			blens = append(blens, utf8.RuneLen(c))
		}
		req := J{"op": "render", "tag": i, "base": cells(base), "title": cells(title), "ann": cells(ann), "blocker": cells(blocker), "id": cells("ABCDEF"), "width": width,
			"ell": []int{int('…'), runewidth.RuneWidth('…')}, "abbr_lens": blens, "abbr_n": abN, "events": ergo.VerifCanonEvents(evs)}
		lineCps := cps(line)
		emit(J{"req": req, "go": J{"line": lineCps, "line_width": ergo.VerifVisibleLen(line), "abbr_valid": utf8.ValidString(abOut), "abbr_bytes": len(abOut), "views": views}})
	}
}

// fnReadyEnum: exhaustive small scope for ready/blocked/claim order — two epics (optionally E2 depends on E1), two children of E1
// in every state, a todo child of E2 (optionally claimed, optionally depending on an orphan task in every state, optionally pruned).
func fnReadyEnum() {
	states := []string{"todo", "doing", "done", "blocked", "canceled", "error"}
	mk := func(typ string, k int, payload any) ergo.Event { return ergo.VerifNewEvent(typ, tsAt(k), payload) }
	newItem := func(typ, id, epic string, k int) ergo.Event {
		return mk(typ, k, ergo.NewTaskEvent{ID: id, UUID: "u-" + id, EpicID: epic, State: "todo", Title: id, CreatedAt: ergo.VerifFormatTime(tsAt(k))})
	}
	setState := func(evs []ergo.Event, id, st string, k int) []ergo.Event {
		if st == "todo" {
			return evs
		}
		if st == "doing" || st == "error" {
			evs = append(evs, mk("claim", k, ergo.ClaimEvent{ID: id, AgentID: "ag", TS: ergo.VerifFormatTime(tsAt(k))}))
		}
		return append(evs, mk("state", k, ergo.StateEvent{ID: id, NewState: st, TS: ergo.VerifFormatTime(tsAt(k))}))
	}
	tag := 0
	for _, s1 := range states {
		for _, s2 := range append([]string{"-"}, states...) {
			for _, s4 := range append([]string{"-"}, states...) {
				for _, epicEdge := range []bool{false, true} {
					for _, dep34 := range []bool{false, true} {
						for _, variant := range []string{"plain", "t3claimed", "t4pruned", "t2moved-to-E2", "t2moved-out", "t0moved-to-E1", "e0open", "e0done"} {
							if (s4 == "-" && (dep34 || variant == "t4pruned")) || (variant == "t4pruned" && !dep34) {
								continue
							}
							if s2 == "-" && (variant == "t2moved-to-E2" || variant == "t2moved-out") {
								continue
							}
							evs := []ergo.Event{newItem("new_epic", "EEEEE1", "", 1), newItem("new_epic", "EEEEE2", "", 2),
								newItem("new_task", "TTTTT1", "EEEEE1", 3)}
							if s2 != "-" {
								evs = append(evs, newItem("new_task", "TTTTT2", "EEEEE1", 4))
							}
							evs = append(evs, newItem("new_task", "TTTTT3", "EEEEE2", 5), newItem("new_task", "TTTTT0", "EEEEE2", 5))
							if s4 != "-" {
								evs = append(evs, newItem("new_task", "TTTTT4", "", 6))
							}
							evs = setState(evs, "TTTTT1", s1, 10)
							if s2 != "-" {
								evs = setState(evs, "TTTTT2", s2, 11)
							}
							if s4 != "-" {
								evs = setState(evs, "TTTTT4", s4, 12)
							}
							if epicEdge {
								evs = append(evs, mk("link", 13, ergo.LinkEvent{FromID: "EEEEE2", ToID: "EEEEE1", Type: "depends"}))
							}
							if dep34 {
								evs = append(evs, mk("link", 14, ergo.LinkEvent{FromID: "TTTTT3", ToID: "TTTTT4", Type: "depends"}))
							}
							// a child that changed epic while unfinished: it counts for the epic it is in now, not for the one it was created in
							if variant == "t2moved-to-E2" {
								evs = append(evs, mk("epic", 9, ergo.EpicAssignEvent{ID: "TTTTT2", EpicID: "EEEEE2", TS: ergo.VerifFormatTime(tsAt(9))}))
							}
							if variant == "t2moved-out" {
								evs = append(evs, mk("epic", 9, ergo.EpicAssignEvent{ID: "TTTTT2", EpicID: "", TS: ergo.VerifFormatTime(tsAt(9))}))
							}
							if variant == "t0moved-to-E1" {
								evs = append(evs, mk("epic", 9, ergo.EpicAssignEvent{ID: "TTTTT0", EpicID: "EEEEE1", TS: ergo.VerifFormatTime(tsAt(9))}))
							}
							// a third epic at the head of the chain: E1 waits for E0 (whose only child is open, or done). An epic is held back by the epics
							// *it* depends on; what those in turn wait for is their business (E2's tasks are ready once E1's are finished, whatever E0 does)
							if variant == "e0open" || variant == "e0done" {
								evs = append(evs, newItem("new_epic", "EEEEE0", "", 7), newItem("new_task", "TTTTT9", "EEEEE0", 8))
								if variant == "e0done" {
									evs = setState(evs, "TTTTT9", "done", 9)
								}
								evs = append(evs, mk("link", 13, ergo.LinkEvent{FromID: "EEEEE1", ToID: "EEEEE0", Type: "depends"}))
							}
							if variant == "t3claimed" {
								evs = append(evs, mk("claim", 15, ergo.ClaimEvent{ID: "TTTTT3", AgentID: "zz", TS: ergo.VerifFormatTime(tsAt(15))}))
							}
							if variant == "t4pruned" {
								evs = append(evs, mk("tombstone", 16, ergo.TombstoneEvent{ID: "TTTTT4", AgentID: "p", TS: ergo.VerifFormatTime(tsAt(16))}))
							}
							pairs := [][]string{{"TTTTT4", "TTTTT3"}, {"EEEEE1", "EEEEE2"}}
							epic := []string{"", "EEEEE2", "EEEEE1"}[tag%3]
							req := J{"op": "replay", "tag": tag, "events": ergo.VerifCanonEvents(evs), "pairs": pairs, "epic": epic, "compact": false}
							ans := replayAnswer(evs, pairs, epic)
							delete(ans, "compact")
							emit(J{"req": req, "go": ans})
							tag++
						}
					}
				}
			}
		}
	}
}
