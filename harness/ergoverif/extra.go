//go:build verif

package main

// extra dispatches the subcommands added after the first round (kept separate so main.go stays small).
func extra(args []string) bool {
	return false
}
