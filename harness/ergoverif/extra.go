//go:build verif

package main

import (
	"bufio"
	"encoding/json"
	"os"

	"github.com/sandover/ergo/internal/ergo"
)

// extra dispatches the subcommands added after the first round (kept separate so main.go stays small).
func extra(args []string) bool {
	switch args[0] {
	case "serve":
		serve()
		return true
	}
	return false
}

// serve answers one JSON request per line (used by the command-level harness).
func serve() {
	sc := bufio.NewScanner(os.Stdin)
	sc.Buffer(make([]byte, 0, 1<<20), 64<<20)
	for sc.Scan() {
		var req map[string]any
		if err := json.Unmarshal(sc.Bytes(), &req); err != nil {
			emit(J{"err": "bad request"})
			out.Flush()
			continue
		}
		switch req["op"] {
		case "canon":
			canon(req["path"].(string))
		case "graph":
			evs, err := ergo.VerifReadEvents(req["path"].(string))
			if err != nil {
				emit(J{"err": err.Error()})
				break
			}
			g, err := ergo.VerifReplay(evs)
			if err != nil {
				emit(J{"err": classifyReplayErr(err)})
				break
			}
			emit(J{"graph": ergo.VerifGraph(g), "events": ergo.VerifCanonEvents(evs), "n": len(evs)})
		case "taskinput":
			p, v := ergo.VerifTaskInputValid([]byte(req["doc"].(string)), req["require_title"] == true, req["is_epic"] == true)
			emit(J{"parsed": p, "valid": v})
		case "planinput":
			p, v := ergo.VerifPlanValid([]byte(req["doc"].(string)))
			emit(J{"parsed": p, "valid": v})
		default:
			emit(J{"err": "bad op"})
		}
		out.Flush()
	}
}
