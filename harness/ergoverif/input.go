//go:build verif

// fn-input: the JSON documents on stdin.  Each case is a byte string → the real ParseTaskInput / ParsePlanInput (run with os.Stdin
// redirected to a file holding it) → parsed or not and, if parsed, every field; the model's Input.parseTaskInput / parsePlanInput must agree.
package main

import (
	"encoding/hex"
	"encoding/json"
	"strings"

	"github.com/sandover/ergo/internal/ergo"
)

var taskKeys = []string{"title", "body", "epic", "state", "claim", "result_path", "result_summary"}

// clean documents use only spellings that still name the field and only string / null values: they are the ones that parse
var cleanDoc bool

func keySpelling(r *rng, k string) string {
	c := r.n(100)
	if cleanDoc && c >= 91 {
		c = r.n(91)
	}
	switch {
	case c < 70:
		return k
	case c < 78:
		return strings.ToUpper(k)
	case c < 84:
		return strings.ToUpper(k[:1]) + k[1:]
	case c < 88:
		return strings.ReplaceAll(strings.ReplaceAll(k, "s", "ſ"), "k", "K")
	case c < 91:
		return "\\u00" + hex.EncodeToString([]byte(k[:1])) + k[1:]
	case c < 94:
		return k + " "
	case c < 97:
		return strings.ReplaceAll(k, "_", "-")
	default:
		return pick(r, []string{"titel", "bdy", "stat", "tasks", "after", "id", "", "result", "Title "})
	}
}

func jstr(s string) string { b, _ := json.Marshal(s); return string(b) }

func someValue(r *rng) string {
	c := r.n(100)
	if cleanDoc && c >= 80 {
		c = r.n(80)
	}
	switch {
	case c < 62:
		return jstr(genText2(r))
	case c < 72:
		return "null"
	case c < 80:
		return jstr(pick(r, []string{"todo", "doing", "done", "", " ", "EEEEEE"}))
	default:
		return pick(r, jsonValues)
	}
}

func wsp(r *rng) string {
	if r.p(20) {
		return pick(r, []string{" ", "\n", "\t", "\r\n", "  "})
	}
	return ""
}

func objText(r *rng, keys []string, vals []string) string {
	var sb strings.Builder
	sb.WriteString("{" + wsp(r))
	for i := range keys {
		if i > 0 {
			sb.WriteString(wsp(r) + "," + wsp(r))
		}
		sb.WriteString("\"" + keys[i] + "\"" + wsp(r) + ":" + wsp(r) + vals[i])
	}
	sb.WriteString(wsp(r) + "}")
	return sb.String()
}

func genTaskDoc(r *rng) string {
	var keys, vals []string
	for _, k := range taskKeys {
		if r.p(45) {
			keys = append(keys, keySpelling(r, k))
			vals = append(vals, someValue(r))
			if r.p(6) { // duplicate: the later one wins (also `null` after a string)
				keys = append(keys, keySpelling(r, k))
				vals = append(vals, someValue(r))
			}
		}
	}
	if r.p(15) && len(keys) > 1 {
		i, j := r.n(len(keys)), r.n(len(keys))
		keys[i], keys[j] = keys[j], keys[i]
		vals[i], vals[j] = vals[j], vals[i]
	}
	return objText(r, keys, vals)
}

func genPlanTask(r *rng) string {
	if !cleanDoc && r.p(6) {
		return pick(r, []string{"null", "5", "\"t\"", "[]", "{}", "true"})
	}
	var keys, vals []string
	if r.p(90) {
		keys = append(keys, keySpelling(r, "title"))
		vals = append(vals, someValue(r))
	}
	if r.p(40) {
		keys = append(keys, keySpelling(r, "body"))
		vals = append(vals, someValue(r))
	}
	if r.p(50) {
		keys = append(keys, keySpelling(r, "after"))
		c := r.n(100)
		if cleanDoc {
			c = r.n(80)
		}
		switch {
		case c < 70:
			n := r.n(4)
			els := []string{}
			for i := 0; i < n; i++ {
				if cleanDoc {
					els = append(els, pick(r, []string{jstr(genText2(r)), jstr("t1"), "null"}))
				} else {
					els = append(els, pick(r, []string{jstr(genText2(r)), jstr("t1"), "null", "5", "[]", "{}"}))
				}
			}
			vals = append(vals, "["+wsp(r)+strings.Join(els, wsp(r)+","+wsp(r))+wsp(r)+"]")
		case c < 80:
			vals = append(vals, "null")
		default:
			vals = append(vals, pick(r, []string{"\"t1\"", "{}", "5", "[1]", "[\"a\",]", "[[\"a\"]]", "true"}))
		}
	}
	if !cleanDoc && r.p(8) {
		keys = append(keys, pick(r, []string{"epic", "state", "id", "extra"}))
		vals = append(vals, someValue(r))
	}
	return objText(r, keys, vals)
}

func genPlanDoc(r *rng) string {
	var keys, vals []string
	if r.p(90) {
		keys = append(keys, keySpelling(r, "title"))
		vals = append(vals, someValue(r))
	}
	if r.p(40) {
		keys = append(keys, keySpelling(r, "body"))
		vals = append(vals, someValue(r))
	}
	if r.p(92) {
		k := keySpelling(r, "tasks")
		keys = append(keys, k)
		c := r.n(100)
		if cleanDoc {
			c = r.n(88)
		}
		switch {
		case c < 80:
			n := r.n(5)
			els := []string{}
			for i := 0; i < n; i++ {
				els = append(els, genPlanTask(r))
			}
			vals = append(vals, "["+wsp(r)+strings.Join(els, wsp(r)+","+wsp(r))+wsp(r)+"]")
		case c < 88:
			vals = append(vals, "null")
		default:
			vals = append(vals, pick(r, []string{"{}", "\"x\"", "7", "[", "[{}", "[{\"title\":\"a\"},]", "true"}))
		}
	}
	if !cleanDoc && r.p(8) {
		keys = append(keys, pick(r, []string{"epic", "state", "task", "extra", "after"}))
		vals = append(vals, someValue(r))
	}
	return objText(r, keys, vals)
}

func fnInput(seed uint64, n int) {
	r := &rng{s: seed}
	for i := 0; i < n; i++ {
		plan := r.p(45)
		cleanDoc = r.p(55)
		var doc string
		if plan {
			doc = genPlanDoc(r)
		} else {
			doc = genTaskDoc(r)
		}
		b := []byte(doc)
		c := r.n(100)
		if cleanDoc && c >= 70 {
			c = r.n(70)
		}
		switch {
		case c < 55:
		case c < 63: // what follows the first value
			b = append(b, []byte(strings.Repeat(pick(r, []string{" ", "\n", "\t"}), r.n(3000))+pick(r, []string{"", "", "{}", "x", "null", "{\"title\":\"second\"}", "]", "\x00"}))...)
		case c < 70:
			b = append([]byte(pick(r, []string{" ", "\n\n", "\ufeff", "\u00a0", "\t"})), b...)
		case c < 85:
			b = mutateBytes(r, b)
		case c < 92:
			b = []byte(pick(r, jsonValues))
		default:
			b = deepNest(r)
		}
		kind := "task"
		var ans J
		if plan {
			kind = "plan"
			ans = ergo.VerifParsePlanInput(b)
			delete(ans, "valid")
		} else {
			ans = ergo.VerifParseTaskInput(b)
		}
		if len(b) == 0 {
			continue
		}
		emit(J{"req": J{"op": "input", "tag": i, "kind": kind, "doc": hex.EncodeToString(b)}, "go": ans})
	}
}
