//go:build verif

// ergoverif — differential-testing driver compiled *inside* /repo's module via -overlay.
// Each `fn-*` subcommand prints JSON lines {"req": <request for the Lean model>, "go": <what the real code answered>}.
package main

import (
	"bufio"
	"encoding/json"
	"errors"
	"fmt"
	"os"
	"strconv"
	"strings"
	"time"

	"github.com/sandover/ergo/internal/ergo"
)

type J = map[string]any

type rng struct{ s uint64 }

func (r *rng) next() uint64 {
	r.s += 0x9e3779b97f4a7c15
	z := r.s
	z = (z ^ (z >> 30)) * 0xbf58476d1ce4e5b9
	z = (z ^ (z >> 27)) * 0x94d049bb133111eb
	return z ^ (z >> 31)
}
func (r *rng) n(k int) int { return int(r.next() % uint64(k)) }
func (r *rng) p(pct int) bool { return r.n(100) < pct }
func pick[T any](r *rng, xs []T) T { return xs[r.n(len(xs))] }

var out = bufio.NewWriterSize(os.Stdout, 1<<20)

func emit(v any) {
	b, err := json.Marshal(v)
	if err != nil {
		panic(err)
	}
	out.Write(b)
	out.WriteByte('\n')
}

var idPool = []string{"AAAAAA", "BBBBBB", "CCCCCC", "DDDDDD", "EEEEEE", "FFFFFF", "GGGGGG", "HHHHHH"}
var statePool = []string{"todo", "doing", "done", "blocked", "canceled", "error"}
var base = time.Date(2026, 1, 2, 3, 4, 5, 0, time.UTC)

func tsAt(k int) time.Time { return base.Add(time.Duration(k) * time.Second) }

func classifyReplayErr(err error) string {
	var ute *json.UnmarshalTypeError
	var se *json.SyntaxError
	var pe *time.ParseError
	switch {
	case errors.As(err, &pe):
		return "bad_time"
	case errors.As(err, &ute), errors.As(err, &se):
		return "bad_data"
	case strings.HasPrefix(err.Error(), "duplicate task id"):
		return "duplicate"
	case strings.Contains(err.Error(), "unexpected end of JSON input"):
		return "bad_data"
	}
	return "other:" + err.Error()
}

// genEvents produces one event list. structured: CLI-like; otherwise wild.
func genEvents(r *rng) []ergo.Event {
	structured := r.p(70)
	nIDs := 2 + r.n(6)
	ids := idPool[:nIDs]
	var evs []ergo.Event
	clock := 0
	tick := func() time.Time {
		if structured {
			clock += r.n(3) // equal timestamps happen
		} else {
			clock = r.n(12)
		}
		return tsAt(clock)
	}
	tsStr := func(t time.Time) string {
		if !structured && r.p(4) {
			return pick(r, []string{"", "garbage", "2026-13-01T00:00:00Z", "0001-01-01T00:00:00Z"})
		}
		return ergo.VerifFormatTime(t)
	}
	created := map[string]bool{}
	isEpic := map[string]bool{}
	mk := func(typ string, t time.Time, payload any) {
		evs = append(evs, ergo.VerifNewEvent(typ, t, payload))
	}
	raw := func(typ string, data string) {
		evs = append(evs, ergo.Event{Type: typ, TS: ergo.VerifFormatTime(tick()), Data: json.RawMessage(data)})
	}
	newItem := func(id string) {
		t := tick()
		epic := r.p(30)
		typ := "new_task"
		if epic {
			typ = "new_epic"
		}
		epicID := ""
		if !epic && r.p(50) {
			epicID = pick(r, ids)
		}
		if epic && !structured && r.p(10) {
			epicID = pick(r, ids)
		}
		st := "todo"
		if !structured && r.p(20) {
			st = pick(r, append(statePool, "", "weird"))
		}
		title := pick(r, []string{"T " + id, "  ", "", "title", "x"})
		body := pick(r, []string{"", "body", "# Heading\n\nFirst line\nrest\nmore", "   \n", "only", "## H\n", "#\nreal"})
		mk(typ, t, ergo.NewTaskEvent{ID: id, UUID: "u-" + id, EpicID: epicID, State: st, Title: title, Body: body, CreatedAt: tsStr(t)})
		created[id] = true
		isEpic[id] = epic
	}
	n := 3 + r.n(22)
	if structured {
		k := 1 + r.n(nIDs)
		for i := 0; i < k; i++ {
			newItem(ids[i])
		}
	}
	for i := 0; i < n; i++ {
		id := pick(r, ids)
		if structured && !created[id] && r.p(80) {
			newItem(id)
			continue
		}
		other := pick(r, ids)
		t := tick()
		switch c := r.n(100); {
		case c < 8:
			if structured && created[id] {
				continue
			}
			newItem(id)
		case c < 30:
			mk("state", t, ergo.StateEvent{ID: id, NewState: func() string {
				if r.p(5) {
					return pick(r, []string{"", "weird"})
				}
				return pick(r, statePool)
			}(), TS: tsStr(t)})
		case c < 42:
			mk("claim", t, ergo.ClaimEvent{ID: id, AgentID: pick(r, []string{"a1", "a2", ""}), TS: tsStr(t)})
		case c < 47:
			mk("unclaim", t, ergo.UnclaimEvent{ID: id, TS: tsStr(t)})
		case c < 62:
			typ := "depends"
			if r.p(4) {
				typ = "relates"
			}
			mk("link", t, ergo.LinkEvent{FromID: id, ToID: other, Type: typ})
		case c < 67:
			mk("unlink", t, ergo.LinkEvent{FromID: id, ToID: other, Type: "depends"})
		case c < 72:
			mk("title", t, ergo.TitleUpdateEvent{ID: id, Title: pick(r, []string{"new title", "", " padded "}), TS: tsStr(t)})
		case c < 77:
			mk("body", t, ergo.BodyUpdateEvent{ID: id, Body: pick(r, []string{"new body", "", "l1\nl2"}), TS: tsStr(t)})
		case c < 83:
			mk("epic", t, ergo.EpicAssignEvent{ID: id, EpicID: pick(r, append(ids, "", "ZZZZZZ")), TS: tsStr(t)})
		case c < 89:
			mk("tombstone", t, ergo.TombstoneEvent{ID: id, AgentID: "p", TS: tsStr(t)})
		case c < 95:
			mk("result", t, ergo.ResultEvent{TaskID: id, Summary: "s" + strconv.Itoa(i), Path: "docs/r" + strconv.Itoa(i) + ".md",
				Sha256AtAttach: "sha" + strconv.Itoa(i), MtimeAtAttach: "m", GitCommitAtAttach: pick(r, []string{"", "g"}), TS: tsStr(t)})
		case c < 97:
			raw(pick(r, []string{"future_type", "", "NEW_TASK"}), `{"id":"`+id+`"}`)
		default:
			if structured {
				continue
			}
			raw(pick(r, []string{"state", "claim", "new_task", "link", "tombstone", "result", "unclaim", "title"}),
				pick(r, []string{`null`, `{}`, `"str"`, `{"id":5}`, `[1]`, `{"id":"`+id+`"}`, `{"id":"`+id+`","ts":7}`}))
		}
	}
	return evs
}

func replayAnswer(evs []ergo.Event, pairs [][]string, epic string) J {
	g, err := ergo.VerifReplay(evs)
	if err != nil {
		return J{"err": classifyReplayErr(err)}
	}
	cyc := []any{}
	for _, p := range pairs {
		cyc = append(cyc, ergo.VerifHasCycle(g, p[0], p[1]))
	}
	ce, err := ergo.VerifCompact(g)
	if err != nil {
		panic(err)
	}
	return J{"graph": ergo.VerifGraph(g), "prune": ergo.VerifPrune(g), "ready_order": ergo.VerifReadyOrder(g, epic),
		"cycles": cyc, "compact": ergo.VerifCanonEvents(ce)}
}

func fnReplay(seed uint64, n int) {
	r := &rng{s: seed}
	for i := 0; i < n; i++ {
		evs := genEvents(r)
		pairs := [][]string{}
		for k := 0; k < 4; k++ {
			pairs = append(pairs, []string{pick(r, idPool[:6]), pick(r, idPool[:6])})
		}
		epic := ""
		if r.p(40) {
			epic = pick(r, idPool[:6])
		}
		req := J{"op": "replay", "tag": i, "events": ergo.VerifCanonEvents(evs), "pairs": pairs, "epic": epic, "compact": true}
		emit(J{"req": req, "go": replayAnswer(evs, pairs, epic)})
	}
}

func classifySetErr(err error) string {
	m := err.Error()
	switch {
	case strings.HasPrefix(m, "state requires claim"):
		return "implicit_claim_needs_agent"
	case m == "title cannot be empty":
		return "empty_title"
	case m == "epics cannot be assigned to other epics":
		return "epic_epic"
	case strings.HasPrefix(m, "invalid state:"):
		return "invalid_state"
	case strings.HasPrefix(m, "invalid transition:"), strings.HasPrefix(m, "unknown state:"):
		return "bad_transition"
	case strings.Contains(m, "requires a claim"), strings.Contains(m, "must have no claim"):
		return "claim_invariant"
	}
	return "other:" + m
}

// fnSetEv enumerates buildSetEvents exhaustively over a finite decision table.
func fnSetEv() {
	now := tsAt(100)
	created := tsAt(1)
	optVals := func(vals ...string) []*string {
		o := []*string{nil}
		for i := range vals {
			o = append(o, &vals[i])
		}
		return o
	}
	tag := 0
	for _, isEpic := range []bool{false, true} {
		for _, st := range append(append([]string{}, statePool...), "weird") {
			for _, claimed := range []string{"", "bob"} {
				for _, title := range optVals("New", "  ", " pad ") {
					for _, body := range optVals("B") {
						for _, epic := range optVals("EEEEEE", "") {
							for _, state := range optVals("todo", "doing", "done", "blocked", "canceled", "error", "bogus") {
								for _, claim := range optVals("", "al") {
									for _, agent := range []string{"", "me"} {
										upd := map[string]string{}
										ju := J{}
										set := func(k string, v *string) {
											if v != nil {
												upd[k] = *v
												ju[k] = *v
											}
										}
										set("title", title)
										set("body", body)
										set("epic", epic)
										set("state", state)
										set("claim", claim)
										typ := "new_task"
										if isEpic {
											typ = "new_epic"
										}
										evs := []ergo.Event{ergo.VerifNewEvent(typ, created, ergo.NewTaskEvent{ID: "AAAAAA", UUID: "u", State: "todo", Title: "t", Body: "b", CreatedAt: ergo.VerifFormatTime(created)})}
										if st != "todo" {
											evs = append(evs, ergo.VerifNewEvent("state", created, ergo.StateEvent{ID: "AAAAAA", NewState: st, TS: ergo.VerifFormatTime(created)}))
										}
										if claimed != "" {
											evs = append(evs, ergo.VerifNewEvent("claim", created, ergo.ClaimEvent{ID: "AAAAAA", AgentID: claimed, TS: ergo.VerifFormatTime(created)}))
										}
										g, err := ergo.VerifReplay(evs)
										if err != nil {
											panic(err)
										}
										task := g.Tasks["AAAAAA"]
										res, rem, err := ergo.VerifBuildSetEvents(task, upd, agent, now)
										var ans J
										if err != nil {
											ans = J{"err": classifySetErr(err)}
										} else if len(rem) > 0 {
											ans = J{"err": "remaining"}
										} else {
											ans = J{"events": ergo.VerifCanonEvents(res)}
										}
										req := J{"op": "setev", "tag": tag, "events": ergo.VerifCanonEvents(evs), "id": "AAAAAA", "updates": ju, "agent": agent, "now": ergo.VerifTime(now)}
										emit(J{"req": req, "go": ans})
										tag++
									}
								}
							}
						}
					}
				}
			}
		}
	}
}

func canon(path string) {
	evs, err := ergo.VerifReadEvents(path)
	if err != nil {
		emit(J{"err": err.Error()})
		return
	}
	emit(J{"events": ergo.VerifCanonEvents(evs), "n": len(evs)})
}

func main() {
	defer out.Flush()
	if len(os.Args) < 2 {
		fmt.Fprintln(os.Stderr, "usage: ergoverif <sub> ...")
		os.Exit(2)
	}
	argN := func(i int, def uint64) uint64 {
		if len(os.Args) > i {
			n, err := strconv.ParseUint(os.Args[i], 10, 64)
			if err == nil {
				return n
			}
		}
		return def
	}
	switch os.Args[1] {
	case "fn-replay":
		fnReplay(argN(2, 1), int(argN(3, 1000)))
	case "fn-setev":
		fnSetEv()
	case "canon":
		canon(os.Args[2])
	default:
		if !extra(os.Args[1:]) {
			fmt.Fprintln(os.Stderr, "unknown subcommand", os.Args[1])
			os.Exit(2)
		}
	}
}
