//go:build verif

// fn-codec: the line codec of the log, byte level.  Three kinds of case:
//   enc   — an event built by the real newEvent + json.Marshal → the bytes; the model's encodeEvent must give the same bytes
//   line  — arbitrary bytes (real lines under structured mutation, hand-written shapes, junk) → what readEvents + replay make of
//           them (blank / bad / canonical event); the model's classifyLine must agree
//   time  — time stamp text → parseTime, and instants → formatTime
package main

import (
	"bytes"
	"encoding/hex"
	"encoding/json"
	"fmt"
	"regexp"
	"strings"
	"time"

	"github.com/sandover/ergo/internal/ergo"
)

var wildStrings = []string{"", " ", "a", "héllo", "日本語", "😀", "a\"b", "back\\slash", "line\nbreak", "tab\there", "cr\rlf", "<b>&amp;</b>", "\u2028\u2029",
	"\x00\x01\x1f", "\u007f", "\u0085\u00a0", "\ufeffbom", "\ufffd", "K\u212a\u017fs", "/slash/", "  padded  ", "\U0010ffff", "e\u0301", "\u3000wide"}

func genText2(r *rng) string {
	switch r.n(10) {
	case 0, 1, 2:
		return pick(r, wildStrings)
	case 3:
		return pick(r, wildStrings) + pick(r, wildStrings)
	case 4:
		n := r.n(40)
		var sb strings.Builder
		for i := 0; i < n; i++ {
			switch r.n(8) {
			case 0:
				sb.WriteRune(rune(r.n(0x20)))
			case 1:
				sb.WriteRune(rune(0x80 + r.n(0x780)))
			case 2:
				c := rune(0x800 + r.n(0xF800))
				if c >= 0xD800 && c < 0xE000 {
					c = 0xFFFD
				}
				sb.WriteRune(c)
			case 3:
				sb.WriteRune(rune(0x10000 + r.n(0x100000)))
			default:
				sb.WriteByte(byte(0x20 + r.n(0x5f)))
			}
		}
		return sb.String()
	default:
		return fmt.Sprintf("t%d", r.n(1000))
	}
}

func genInstant(r *rng) time.Time {
	switch r.n(10) {
	case 0:
		return time.Date(1+r.n(9999), time.Month(1+r.n(12)), 1+r.n(31), r.n(24), r.n(60), r.n(60), r.n(1000000000), time.UTC)
	case 1:
		return time.Date(1+r.n(9999), time.Month(1+r.n(12)), 1+r.n(28), r.n(24), r.n(60), r.n(60), r.n(1000)*1000000, time.UTC)
	case 2:
		return time.Date(pick(r, []int{1, 4, 100, 400, 1900, 2000, 2024, 2100, 9999}), time.Month(pick(r, []int{1, 2, 3, 12})), pick(r, []int{1, 28, 29, 31}), pick(r, []int{0, 23}), pick(r, []int{0, 59}), pick(r, []int{0, 59}), pick(r, []int{0, 1, 999999999, 500000000, 120000000}), time.UTC)
	default:
		return base.Add(time.Duration(r.n(400000000))*time.Second + time.Duration(r.n(3))*time.Duration(r.n(1000000000)))
	}
}

var timeShapes = []string{"", "garbage", "2026-01-02T03:04:05Z", "2026-01-02T3:04:05Z", "2026-01-02T03:04:05,5Z", "2026-01-02T03:04:05.Z", "2026-01-02T03:04:05.1234567891Z",
	"2026-01-02T03:04:05.000000000Z", "2026-01-02T03:04:05+00:00", "2026-01-02T03:04:05-07:30", "2026-01-02T03:04:05+24:00", "2026-01-02T03:04:05+25:00", "2026-01-02T03:04:05+23:60",
	"2026-01-02T03:04:05+23:61", "2026-01-02T03:04:05 Z", "2026-01-02t03:04:05z", "2026-01-02 03:04:05Z", "2026-02-29T00:00:00Z", "2024-02-29T00:00:00Z", "2100-02-29T00:00:00Z",
	"2000-02-29T00:00:00Z", "2026-02-30T00:00:00Z", "2026-04-31T00:00:00Z", "2026-13-01T00:00:00Z", "2026-00-01T00:00:00Z", "2026-01-00T00:00:00Z", "2026-01-32T00:00:00Z",
	"2026-01-02T24:00:00Z", "2026-01-02T23:60:00Z", "2026-01-02T23:59:60Z", "0001-01-01T00:00:00Z", "0001-01-01T00:00:00.000000001Z", "9999-12-31T23:59:59.999999999Z",
	"10000-01-01T00:00:00Z", "226-01-02T03:04:05Z", "2026-1-02T03:04:05Z", "2026-01-2T03:04:05Z", "2026-01-02T03:4:05Z", "2026-01-02T03:04:5Z", "2026-01-02T03:04:05Zjunk",
	"2026-01-02T03:04:05", "2026-01-02T03:04:05+0700", "2026-01-02T03:04:05+07", "2026-01-02T03:04:05*07:00", "+026-01-02T03:04:05Z", "2026-01-02T03:04:05.5+01:00",
	"2026-01-02T03:04:05.5-01:00", " 2026-01-02T03:04:05Z", "2026-01-02T03:04:05Z ", "２０２６-01-02T03:04:05Z", "2026-01-02T03:04:05.٣Z", "2026-01-02T03:04:05+0a:00", "0001-01-01T00:00:00-00:01"}

func genTimeText(r *rng) string {
	switch r.n(10) {
	case 0, 1, 2:
		return pick(r, timeShapes)
	case 3, 4:
		// a real time stamp with one byte changed / removed / inserted
		b := []byte(ergo.VerifFormatTime(genInstant(r)))
		alphabet := []byte("0123456789-:.,TZ+ tz")
		switch r.n(3) {
		case 0:
			b[r.n(len(b))] = pick(r, alphabet)
		case 1:
			i := r.n(len(b))
			b = append(b[:i], b[i+1:]...)
		default:
			i := r.n(len(b) + 1)
			b = append(b[:i], append([]byte{pick(r, alphabet)}, b[i:]...)...)
		}
		return string(b)
	case 5:
		// an offset form
		t := genInstant(r)
		if t.Year() < 2 {
			t = base
		}
		loc := time.FixedZone("", (r.n(49)-24)*1800)
		return t.In(loc).Format(time.RFC3339Nano)
	default:
		return ergo.VerifFormatTime(genInstant(r))
	}
}

// before year 1 the model has no number for the instant (Time = Nat): such texts are not generated
func beforeZero(s string) bool {
	t, err := time.Parse(time.RFC3339Nano, s)
	return err == nil && t.Before(time.Time{})
}

func genRealEvent(r *rng) ergo.Event {
	id := pick(r, idPool)
	t := genInstant(r)
	ts := ergo.VerifFormatTime(t)
	switch r.n(12) {
	case 0:
		return ergo.VerifNewEvent("new_task", t, ergo.NewTaskEvent{ID: id, UUID: "u-" + id, EpicID: pick(r, []string{"", "EEEEEE"}), State: pick(r, statePool), Title: genText2(r), Body: genText2(r), CreatedAt: ts})
	case 1:
		return ergo.VerifNewEvent("new_epic", t, ergo.NewTaskEvent{ID: id, UUID: "u-" + id, State: "todo", Title: genText2(r), Body: genText2(r), CreatedAt: ts})
	case 2:
		return ergo.VerifNewEvent("state", t, ergo.StateEvent{ID: id, NewState: pick(r, append(statePool, "weird", "")), TS: ts})
	case 3:
		return ergo.VerifNewEvent("claim", t, ergo.ClaimEvent{ID: id, AgentID: genText2(r), TS: ts})
	case 4:
		return ergo.VerifNewEvent("unclaim", t, ergo.UnclaimEvent{ID: id, TS: ts})
	case 5:
		return ergo.VerifNewEvent(pick(r, []string{"link", "unlink"}), t, ergo.LinkEvent{FromID: id, ToID: pick(r, idPool), Type: "depends"})
	case 6:
		return ergo.VerifNewEvent("title", t, ergo.TitleUpdateEvent{ID: id, Title: genText2(r), TS: ts})
	case 7:
		return ergo.VerifNewEvent("body", t, ergo.BodyUpdateEvent{ID: id, Body: genText2(r), TS: ts})
	case 8:
		return ergo.VerifNewEvent("epic", t, ergo.EpicAssignEvent{ID: id, EpicID: pick(r, []string{"", "EEEEEE"}), TS: ts})
	case 9:
		return ergo.VerifNewEvent("tombstone", t, ergo.TombstoneEvent{ID: id, AgentID: pick(r, []string{"", "agent", genText2(r)}), TS: ts})
	default:
		return ergo.VerifNewEvent("result", t, ergo.ResultEvent{TaskID: id, Summary: genText2(r), Path: "docs/" + genText2(r), Sha256AtAttach: strings.Repeat("ab", 32),
			MtimeAtAttach: pick(r, []string{"", ts}), GitCommitAtAttach: pick(r, []string{"", "deadbeef"}), TS: ts})
	}
}

var jsonValues = []string{"null", "true", "false", "0", "-0", "1", "-1", "12", "01", "1.", "1.5", ".5", "-", "1e5", "1E+5", "1e-5", "1e", "1e+", "1.5e3", "-0.0E-3", "+1", "0x1", "1_0",
	"\"\"", "\"s\"", "\"a\\nb\"", "\"\\u0041\"", "\"\\ud83d\\ude00\"", "\"\\ud83d\"", "\"\\ude00\"", "\"\\ud83dx\"", "\"\\u00zz\"", "\"\\x\"", "\"\\\"", "\"un", "\"ctl\x01\"", "\"tab\t\"", "\"\xff\xfe\"", "\"\xe2\x82\"",
	"[]", "[ ]", "[1]", "[1,2]", "[1,]", "[,1]", "[1 2]", "[", "]", "[[[]]]", "{}", "{ }", "{\"a\":1}", "{\"a\":1,}", "{\"a\"}", "{\"a\":}", "{a:1}", "{\"a\":1 \"b\":2}", "{\"a\":{\"b\":[{}]}}", "{",
	"}", "nul", "nulll", "tru", "True", "NaN", "Infinity", "'s'", "1 2", ""}

var keyVariants = map[string][]string{
	"type": {"type", "Type", "TYPE", "tYpE", "typ", "type ", "ty\\u0070e", "t\\u0079pe"},
	"ts":   {"ts", "TS", "Ts", "t\u017f", "T\u017f", "t\\u017f"},
	"data": {"data", "Data", "DATA", "dat\\u0061"},
	"id":   {"id", "ID", "Id", "i\\u0064"},
	"state": {"state", "State", "\u017ftate", "STATE", "stat\\u0065"},
	"task_id": {"task_id", "TASK_ID", "tas\u212a_id", "ta\u017fk_id", "taskid", "task-id"},
}

func variantOf(r *rng, k string) string {
	if vs, ok := keyVariants[k]; ok && r.p(35) {
		return pick(r, vs)
	}
	if r.p(5) {
		return strings.ToUpper(k)
	}
	return k
}

// rebuild a real line member by member with mutations at the JSON level
func mutateStructure(r *rng, line []byte) []byte {
	var env map[string]json.RawMessage
	if json.Unmarshal(line, &env) != nil {
		return line
	}
	ws := func() string {
		if r.p(25) {
			return pick(r, []string{" ", "\t", "  ", "\r", " \t "})
		}
		return ""
	}
	obj := func(keys []string, vals map[string]string) string {
		var sb strings.Builder
		sb.WriteString("{" + ws())
		for i, k := range keys {
			if i > 0 {
				sb.WriteString(ws() + "," + ws())
			}
			sb.WriteString("\"" + k + "\"" + ws() + ":" + ws() + vals[k])
		}
		sb.WriteString(ws() + "}")
		return sb.String()
	}
	// payload
	var payload map[string]json.RawMessage
	dataText := string(env["data"])
	if json.Unmarshal(env["data"], &payload) == nil && payload != nil {
		var pkeys []string
		pvals := map[string]string{}
		dec := json.NewDecoder(bytes.NewReader(env["data"]))
		dec.Token()
		for dec.More() {
			tk, _ := dec.Token()
			k := tk.(string)
			var v json.RawMessage
			dec.Decode(&v)
			kk := variantOf(r, k)
			val := string(v)
			switch c := r.n(100); {
			case c < 6:
				val = pick(r, jsonValues)
			case c < 9:
				val = "null"
			case c < 11 && (k == "ts" || k == "created_at"):
				b, _ := json.Marshal(genTimeText(r))
				val = string(b)
			}
			if r.p(4) {
				continue // member dropped
			}
			pkeys = append(pkeys, kk)
			pvals[kk] = val
			if r.p(5) { // duplicate member, later one wins
				dup := kk + ""
				pkeys = append(pkeys, dup)
				pvals[dup] = pick(r, []string{val, "\"dup\"", "null", "7"})
			}
		}
		if r.p(10) {
			uk := pick(r, []string{"extra", "x", "Zz", ""})
			pkeys = append(pkeys, uk)
			pvals[uk] = pick(r, jsonValues)
		}
		if r.p(10) && len(pkeys) > 1 {
			i, j := r.n(len(pkeys)), r.n(len(pkeys))
			pkeys[i], pkeys[j] = pkeys[j], pkeys[i]
		}
		dataText = obj(pkeys, pvals)
	}
	if r.p(8) {
		dataText = pick(r, jsonValues)
	}
	keys := []string{}
	vals := map[string]string{}
	for _, k := range []string{"type", "ts", "data"} {
		if r.p(4) {
			continue
		}
		kk := variantOf(r, k)
		v := string(env[k])
		if k == "data" {
			v = dataText
		} else if r.p(6) {
			v = pick(r, jsonValues)
		} else if k == "type" && r.p(6) {
			v = pick(r, []string{"\"new_task\"", "\"NEW_TASK\"", "\"state \"", "\"\"", "\"unknown\"", "\"st\\u0061te\""})
		}
		keys = append(keys, kk)
		vals[kk] = v
		if r.p(4) {
			keys = append(keys, kk)
		}
	}
	if r.p(10) {
		uk := pick(r, []string{"extra", "meta", "v"})
		keys = append(keys, uk)
		vals[uk] = pick(r, jsonValues)
	}
	if r.p(10) && len(keys) > 1 {
		i, j := r.n(len(keys)), r.n(len(keys))
		keys[i], keys[j] = keys[j], keys[i]
	}
	return []byte(obj(keys, vals))
}

func mutateBytes(r *rng, line []byte) []byte {
	b := append([]byte(nil), line...)
	if len(b) == 0 {
		return b
	}
	switch r.n(7) {
	case 0:
		b[r.n(len(b))] ^= 1 << uint(r.n(8))
	case 1:
		i := r.n(len(b))
		b = append(b[:i], b[i+1:]...)
	case 2:
		i := r.n(len(b) + 1)
		b = append(b[:i], append([]byte{pick(r, []byte("{}[]\":,\\ \t\n\r0-9eE.+ntf\xff\x80\xc2\xe2"))}, b[i:]...)...)
	case 3:
		b = b[:r.n(len(b)+1)] // torn
	case 4:
		b = b[r.n(len(b)):] // head missing
	case 5:
		sp := pick(r, []string{" ", "\t", "\v", "\f", "\r", "\u0085", "\u00a0", "\u1680", "\u2000", "\u200a", "\u2028", "\u2029", "\u202f", "\u205f", "\u3000", "\ufeff", "\u200b", "\xc2", "\xa0", "\x85"})
		if r.p(50) {
			b = append([]byte(sp), b...)
		}
		if r.p(70) {
			b = append(b, sp...)
		}
	default:
		i := r.n(len(b))
		j := i + r.n(len(b)-i+1)
		b = append(b[:i:i], append(append([]byte(nil), b[i:j]...), b[i:]...)...) // a stretch doubled
	}
	return b
}

func deepNest(r *rng) []byte {
	n := pick(r, []int{3, 500, 9998, 9999, 10000, 10001})
	open, cl := "[", "]"
	if r.p(50) {
		open, cl = "{\"a\":", "}"
	}
	inner := pick(r, []string{"1", "\"x\"", "null", "[]", "{}"})
	val := strings.Repeat(open, n) + inner + strings.Repeat(cl, n)
	switch r.n(3) {
	case 0:
		return []byte("{\"type\":\"state\",\"ts\":\"\",\"data\":{\"id\":\"A\",\"state\":\"done\",\"ts\":\"2026-01-02T03:04:05Z\"},\"x\":" + val + "}")
	case 1:
		return []byte("{\"type\":\"state\",\"ts\":\"\",\"data\":{\"id\":\"A\",\"state\":\"done\",\"ts\":\"2026-01-02T03:04:05Z\",\"x\":" + val + "}}")
	default:
		return []byte(val)
	}
}

var timeInLine = regexp.MustCompile(`"[0-9][0-9T:.,+Z-]{15,45}"`)

func fnCodec(seed uint64, n int) {
	r := &rng{s: seed}
	tag := 0
	emitLine := func(line []byte) {
		tag++
		emit(J{"req": J{"op": "codec", "tag": tag, "line": hex.EncodeToString(line)}, "go": J{"class": ergo.VerifClassifyLine(line)}})
	}
	for i := 0; i < n; i++ {
		ev := genRealEvent(r)
		real, _ := json.Marshal(ev)
		// enc: the model must produce these very bytes from the canonical event
		tag++
		emit(J{"req": J{"op": "codec", "tag": tag, "event": ergo.VerifCanonEvent(ev), "ets": ev.TS}, "go": J{"enc": hex.EncodeToString(real)}})
		emitLine(real)
		var line []byte
		switch c := r.n(100); {
		case c < 45:
			line = mutateStructure(r, real)
		case c < 70:
			line = mutateBytes(r, real)
		case c < 80:
			line = mutateBytes(r, mutateStructure(r, real))
		case c < 90:
			line = []byte(pick(r, jsonValues))
		case c < 92:
			line = deepNest(r)
		default:
			line = []byte("{\"type\":" + pick(r, jsonValues) + ",\"ts\":" + pick(r, jsonValues) + ",\"data\":" + pick(r, jsonValues) + "}")
		}
		{
			// a re-marshalled line (what plan's rewrite of existing events writes) must mean the same
			var e ergo.Event
			if json.Unmarshal(bytes.TrimSpace(line), &e) == nil {
				if again, err := json.Marshal(e); err == nil {
					emitLine(again)
				}
			}
		}
		skip := false
		for _, m := range timeInLine.FindAll(line, -1) {
			if beforeZero(string(m[1 : len(m)-1])) {
				skip = true
			}
		}
		if !skip {
			emitLine(line)
		}
		// time stamps
		s := genTimeText(r)
		if !beforeZero(s) {
			tag++
			var parsed any
			if t, err := time.Parse(time.RFC3339Nano, s); err == nil {
				parsed = ergo.VerifTime(t)
			}
			emit(J{"req": J{"op": "codec", "tag": tag, "time_text": s}, "go": J{"parsed": parsed}})
		}
		t := genInstant(r)
		tag++
		emit(J{"req": J{"op": "codec", "tag": tag, "instant": ergo.VerifTime(t)}, "go": J{"formatted": ergo.VerifFormatTime(t)}})
	}
}
