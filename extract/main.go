// extract — T1 of /verif/DESIGN.md: a deliberately small, syntactic go/ast fact extractor.
// It reads /repo/internal/ergo/*.go (non-test) and prints (a) Generated/Facts.lean, the tables the Lean model and
// theorems are stated over, and (b) facts.json, structural facts that /verif/check compares with extract/expect.json.
// What it cannot classify it reports as "unknown", which fails the expectation rather than passing silently.
package main

import (
	"encoding/json"
	"fmt"
	"go/ast"
	"go/parser"
	"go/printer"
	"go/token"
	"os"
	"path/filepath"
	"sort"
	"strconv"
	"strings"
)

var fset = token.NewFileSet()
var consts = map[string]string{}
var funcs = map[string]*ast.FuncDecl{}
var funcFile = map[string]string{}
var files = map[string]*ast.File{}

func src(n ast.Node) string {
	var sb strings.Builder
	printer.Fprint(&sb, fset, n)
	return sb.String()
}

func strVal(e ast.Expr) (string, bool) {
	switch v := e.(type) {
	case *ast.BasicLit:
		if v.Kind == token.STRING {
			s, err := strconv.Unquote(v.Value)
			return s, err == nil
		}
	case *ast.Ident:
		s, ok := consts[v.Name]
		return s, ok
	}
	return "", false
}

func leanStr(s string) string { return strconv.Quote(s) }
func leanList(xs []string) string {
	q := make([]string, len(xs))
	for i, x := range xs {
		q[i] = leanStr(x)
	}
	return "[" + strings.Join(q, ", ") + "]"
}

type Facts struct {
	ValidTransitions [][2]any            `json:"valid_transitions"`
	ValidStates      []string            `json:"valid_states"`
	ClaimRequired    []string            `json:"claim_required"`
	ClaimForbidden   []string            `json:"claim_forbidden"`
	ClearsClaim      []string            `json:"clears_claim"`
	ReplayCases      []string            `json:"replay_cases"`
	WithLock         map[string]any      `json:"with_lock"`
	LockSites        []map[string]any    `json:"lock_sites"`
	WriterCalls      []map[string]any    `json:"writer_calls"`
	TruncateSites    []string            `json:"truncate_sites"`
	OpenSites        []string            `json:"open_sites"`
	Sections         map[string][]string `json:"sections"`
	LogNameUses      []string            `json:"log_name_uses"`
	MapRanges        []map[string]any    `json:"map_ranges"`
	StdoutSites      []map[string]any    `json:"stdout_sites"`
	Unknown          []string            `json:"unknown"`
}

var facts = Facts{WithLock: map[string]any{}, Sections: map[string][]string{}}

func unknown(f string, a ...any) { facts.Unknown = append(facts.Unknown, fmt.Sprintf(f, a...)) }

func main() {
	dir := os.Args[1]
	outLean := os.Args[2]
	outJSON := os.Args[3]
	matches, _ := filepath.Glob(filepath.Join(dir, "*.go"))
	sort.Strings(matches)
	for _, m := range matches {
		if strings.HasSuffix(m, "_test.go") || strings.HasPrefix(filepath.Base(m), "zz_verif") {
			continue
		}
		f, err := parser.ParseFile(fset, m, nil, parser.ParseComments)
		if err != nil {
			fmt.Fprintln(os.Stderr, err)
			os.Exit(1)
		}
		files[filepath.Base(m)] = f
	}
	// constants and functions
	for name, f := range files {
		for _, d := range f.Decls {
			switch d := d.(type) {
			case *ast.GenDecl:
				if d.Tok == token.CONST {
					for _, s := range d.Specs {
						vs := s.(*ast.ValueSpec)
						for i, n := range vs.Names {
							if i < len(vs.Values) {
								if bl, ok := vs.Values[i].(*ast.BasicLit); ok && bl.Kind == token.STRING {
									v, _ := strconv.Unquote(bl.Value)
									consts[n.Name] = v
								}
							}
						}
					}
				}
			case *ast.FuncDecl:
				if d.Recv == nil {
					funcs[d.Name.Name] = d
					funcFile[d.Name.Name] = name
				}
			}
		}
	}
	extractTables()
	extractClaimInvariant()
	extractReplay()
	extractWithLock()
	extractLockSites()
	extractSections()
	extractLogNames()
	extractMapRanges()
	extractStdout()

	sort.Strings(facts.Unknown)
	writeLean(outLean)
	b, _ := json.MarshalIndent(facts, "", " ")
	os.WriteFile(outJSON, append(b, '\n'), 0644)
}

func findVar(name string) ast.Expr {
	for _, f := range files {
		for _, d := range f.Decls {
			if gd, ok := d.(*ast.GenDecl); ok && gd.Tok == token.VAR {
				for _, s := range gd.Specs {
					vs := s.(*ast.ValueSpec)
					for i, n := range vs.Names {
						if n.Name == name && i < len(vs.Values) {
							return vs.Values[i]
						}
					}
				}
			}
		}
	}
	return nil
}

func extractTables() {
	if cl, ok := findVar("validTransitions").(*ast.CompositeLit); ok {
		for _, el := range cl.Elts {
			kv := el.(*ast.KeyValueExpr)
			from, ok1 := strVal(kv.Key)
			inner, ok2 := kv.Value.(*ast.CompositeLit)
			if !ok1 || !ok2 {
				unknown("validTransitions entry %s", src(el))
				continue
			}
			tos := []string{}
			for _, e2 := range inner.Elts {
				kv2 := e2.(*ast.KeyValueExpr)
				to, ok := strVal(kv2.Key)
				if !ok {
					unknown("validTransitions target %s", src(e2))
					continue
				}
				tos = append(tos, to)
			}
			facts.ValidTransitions = append(facts.ValidTransitions, [2]any{from, tos})
		}
	} else {
		unknown("validTransitions literal not found")
	}
	if cl, ok := findVar("validStates").(*ast.CompositeLit); ok {
		for _, el := range cl.Elts {
			s, ok := strVal(el.(*ast.KeyValueExpr).Key)
			if !ok {
				unknown("validStates entry %s", src(el))
			}
			facts.ValidStates = append(facts.ValidStates, s)
		}
	} else {
		unknown("validStates literal not found")
	}
	// validateTransition must be: from==to → nil; lookup; membership
	if fd := funcs["validateTransition"]; fd != nil {
		want := "func validateTransition(from, to string) error {\n\tif from == to {\n\t\treturn nil\n\t}\n\tallowed, ok := validTransitions[from]\n\tif !ok {\n\t\treturn fmt.Errorf(\"unknown state: %s\", from)\n\t}\n\tif _, valid := allowed[to]; !valid {\n\t\treturn fmt.Errorf(\"invalid transition: %s → %s\", from, to)\n\t}\n\treturn nil\n}"
		if normalize(src(fd)) != normalize(want) {
			unknown("validateTransition body changed")
		}
	} else {
		unknown("validateTransition not found")
	}
}

func normalize(s string) string {
	// drop comments-only lines and collapse whitespace
	var out []string
	for _, l := range strings.Split(s, "\n") {
		if i := strings.Index(l, "//"); i >= 0 {
			l = l[:i]
		}
		l = strings.Join(strings.Fields(l), " ")
		if l != "" {
			out = append(out, l)
		}
	}
	return strings.Join(out, "\n")
}

func extractClaimInvariant() {
	fd := funcs["validateClaimInvariant"]
	if fd == nil {
		unknown("validateClaimInvariant not found")
		return
	}
	var sw *ast.SwitchStmt
	for _, st := range fd.Body.List {
		if s, ok := st.(*ast.SwitchStmt); ok {
			sw = s
		}
	}
	if sw == nil || src(sw.Tag) != "state" {
		unknown("validateClaimInvariant: no switch on state")
		return
	}
	for _, c := range sw.Body.List {
		cc := c.(*ast.CaseClause)
		kind := "unknown"
		if len(cc.Body) == 1 {
			if ifs, ok := cc.Body[0].(*ast.IfStmt); ok && ifs.Init == nil && ifs.Else == nil && returnsError(ifs.Body) {
				switch src(ifs.Cond) {
				case `claimedBy == ""`:
					kind = "required"
				case `claimedBy != ""`:
					kind = "forbidden"
				}
			}
		}
		for _, e := range cc.List {
			s, ok := strVal(e)
			if !ok || kind == "unknown" {
				unknown("validateClaimInvariant case %s", src(cc))
				continue
			}
			if kind == "required" {
				facts.ClaimRequired = append(facts.ClaimRequired, s)
			} else {
				facts.ClaimForbidden = append(facts.ClaimForbidden, s)
			}
		}
	}
	// everything after the switch must be `return nil`
	last := fd.Body.List[len(fd.Body.List)-1]
	if src(last) != "return nil" {
		unknown("validateClaimInvariant tail: %s", src(last))
	}
}

func returnsError(b *ast.BlockStmt) bool {
	if len(b.List) != 1 {
		return false
	}
	r, ok := b.List[0].(*ast.ReturnStmt)
	return ok && len(r.Results) == 1 && src(r.Results[0]) != "nil"
}

func extractReplay() {
	fd := funcs["replayEvents"]
	if fd == nil {
		unknown("replayEvents not found")
		return
	}
	ast.Inspect(fd, func(n ast.Node) bool {
		sw, ok := n.(*ast.SwitchStmt)
		if !ok || src(sw.Tag) != "event.Type" {
			return true
		}
		for _, c := range sw.Body.List {
			cc := c.(*ast.CaseClause)
			for _, e := range cc.List {
				s, _ := strVal(e)
				facts.ReplayCases = append(facts.ReplayCases, s)
			}
			if len(cc.List) == 1 {
				if s, _ := strVal(cc.List[0]); s == "state" {
					found := false
					ast.Inspect(cc, func(m ast.Node) bool {
						ifs, ok := m.(*ast.IfStmt)
						if !ok {
							return true
						}
						if len(ifs.Body.List) == 1 && src(ifs.Body.List[0]) == `task.ClaimedBy = ""` {
							found = true
							for _, d := range disjuncts(ifs.Cond) {
								be, ok := d.(*ast.BinaryExpr)
								if !ok || be.Op != token.EQL || src(be.X) != "data.NewState" {
									unknown("replay state clear condition: %s", src(d))
									continue
								}
								s, ok := strVal(be.Y)
								if !ok {
									unknown("replay state clear condition: %s", src(d))
								}
								facts.ClearsClaim = append(facts.ClearsClaim, s)
							}
						}
						return true
					})
					if !found {
						unknown("replay case state: claim-clearing if not found")
					}
				}
			}
		}
		return false
	})
	sort.Strings(facts.ReplayCases)
}

func disjuncts(e ast.Expr) []ast.Expr {
	if be, ok := e.(*ast.BinaryExpr); ok && be.Op == token.LOR {
		return append(disjuncts(be.X), disjuncts(be.Y)...)
	}
	if pe, ok := e.(*ast.ParenExpr); ok {
		return disjuncts(pe.X)
	}
	return []ast.Expr{e}
}

func extractWithLock() {
	fd := funcs["withLock"]
	if fd == nil {
		unknown("withLock not found")
		return
	}
	flocks := []string{}
	deferredUnlock := false
	callsFn := false
	ast.Inspect(fd, func(n ast.Node) bool {
		switch v := n.(type) {
		case *ast.CallExpr:
			if src(v.Fun) == "syscall.Flock" && len(v.Args) == 2 {
				flocks = append(flocks, src(v.Args[1]))
			}
			if src(v.Fun) == "fn" {
				callsFn = true
			}
		case *ast.DeferStmt:
			if strings.Contains(src(v), "syscall.Flock(fd, syscall.LOCK_UN)") {
				deferredUnlock = true
			}
		}
		return true
	})
	facts.WithLock["flock_args"] = flocks
	facts.WithLock["deferred_unlock"] = deferredUnlock
	facts.WithLock["calls_fn"] = callsFn
	// fn() must be the final statement: `return fn()`
	last := fd.Body.List[len(fd.Body.List)-1]
	facts.WithLock["tail"] = src(last)
	// lock-busy mapping
	facts.WithLock["maps_ewouldblock"] = strings.Contains(src(fd), "syscall.EWOULDBLOCK") && strings.Contains(src(fd), "return ErrLockBusy")
}

var writers = map[string]bool{"appendEvents": true, "replaceEventsAtomically": true, "appendEventsAtomically": true, "writeEventsFile": true, "repairTornTail": true}
var readers = map[string]bool{"loadGraph": true, "readEvents": true}

// extractLockSites: every withLock call — lock type, whether its closure reads the log and writes it;
// and every call of a writer: is it lexically inside a withLock closure (or inside another writer).
func extractLockSites() {
	names := make([]string, 0, len(funcs))
	for n := range funcs {
		names = append(names, n)
	}
	sort.Strings(names)
	for _, name := range names {
		fd := funcs[name]
		if fd.Body == nil {
			continue
		}
		var closures []*ast.FuncLit
		ast.Inspect(fd, func(n ast.Node) bool {
			ce, ok := n.(*ast.CallExpr)
			if !ok || src(ce.Fun) != "withLock" || len(ce.Args) != 3 {
				return true
			}
			site := map[string]any{"func": name, "lock_type": src(ce.Args[1])}
			fl, ok := ce.Args[2].(*ast.FuncLit)
			if !ok {
				site["closure"] = "unknown"
				unknown("withLock in %s: third argument is not a func literal", name)
			} else {
				closures = append(closures, fl)
				rd, wr := []string{}, []string{}
				firstRead, firstWrite := token.Pos(0), token.Pos(0)
				ast.Inspect(fl, func(m ast.Node) bool {
					if c, ok := m.(*ast.CallExpr); ok {
						f := src(c.Fun)
						if readers[f] {
							rd = append(rd, f)
							if firstRead == 0 {
								firstRead = c.Pos()
							}
						}
						if writers[f] {
							wr = append(wr, f)
							if firstWrite == 0 {
								firstWrite = c.Pos()
							}
						}
					}
					return true
				})
				site["reads"] = rd
				site["writes"] = wr
				site["read_before_write"] = firstWrite == 0 || (firstRead != 0 && firstRead < firstWrite)
			}
			facts.LockSites = append(facts.LockSites, site)
			return true
		})
		// writer calls and graph reads that feed decisions
		ast.Inspect(fd, func(n ast.Node) bool {
			ce, ok := n.(*ast.CallExpr)
			if !ok {
				return true
			}
			f := src(ce.Fun)
			if !writers[f] {
				return true
			}
			inside := false
			for _, c := range closures {
				if ce.Pos() >= c.Pos() && ce.End() <= c.End() {
					inside = true
				}
			}
			facts.WriterCalls = append(facts.WriterCalls, map[string]any{"func": name, "callee": f, "under_lock": inside || writers[name]})
			return true
		})
	}
	// raw file mutation primitives outside the known writers
	for _, name := range names {
		fd := funcs[name]
		if fd.Body == nil {
			continue
		}
		ast.Inspect(fd, func(n ast.Node) bool {
			ce, ok := n.(*ast.CallExpr)
			if !ok {
				return true
			}
			f := src(ce.Fun)
			// shrinking a file in place: lock-free readers may be in the middle of reading it, so every site is listed (and expected)
			if se, ok := ce.Fun.(*ast.SelectorExpr); ok && se.Sel.Name == "Truncate" {
				facts.TruncateSites = append(facts.TruncateSites, name+": "+src(ce))
			}
			// every call that opens, creates or renames a file, with its arguments as written: the flags (O_APPEND on the log, O_TRUNC on the
			// temporary file, no O_TRUNC where a missing file is created) are what ErgoModel.Files' theorems rest on
			switch f {
			case "os.OpenFile", "os.WriteFile", "os.Create", "os.CreateTemp", "syscall.Open", "os.Rename", "os.Remove", "os.Truncate", "os.Link", "os.Symlink":
				facts.OpenSites = append(facts.OpenSites, name+": "+src(ce))
			}
			switch f {
			case "os.OpenFile", "os.Rename", "os.WriteFile", "os.Truncate", "os.Remove", "os.Create":
				okSite := writers[name] || name == "ensureFileExists" || name == "writeAll"
				if !okSite {
					unknown("file mutation primitive %s in %s", f, name)
				}
			}
			return true
		})
	}
}

// extractSections: for each RunX, the ordered list of lock-taking helpers it calls (lexical order).
func extractSections() {
	lockers := map[string]bool{"createTask": true, "createTaskWithUpdates": true, "applySetUpdates": true, "writeLinkEvents": true,
		"withLock": true, "runPrune": true, "RunPruneApply": true, "RunPrunePlan": true, "createTaskWithDir": true}
	names := []string{}
	for n := range funcs {
		names = append(names, n)
	}
	sort.Strings(names)
	for _, name := range names {
		fd := funcs[name]
		if fd.Body == nil {
			continue
		}
		seq := []string{}
		ast.Inspect(fd.Body, func(n ast.Node) bool {
			switch v := n.(type) {
			case *ast.ForStmt, *ast.RangeStmt:
				inner := []string{}
				ast.Inspect(v, func(m ast.Node) bool {
					if c, ok := m.(*ast.CallExpr); ok && lockers[src(c.Fun)] {
						inner = append(inner, src(c.Fun))
					}
					return true
				})
				for _, i := range inner {
					seq = append(seq, "loop:"+i)
				}
				return false
			case *ast.CallExpr:
				if lockers[src(v.Fun)] {
					seq = append(seq, src(v.Fun))
				}
			}
			return true
		})
		if len(seq) > 0 {
			facts.Sections[name] = seq
		}
	}
}

func extractLogNames() {
	uses := []string{}
	for fname, f := range files {
		ast.Inspect(f, func(n ast.Node) bool {
			if fd, ok := n.(*ast.FuncDecl); ok && fd.Body != nil {
				ast.Inspect(fd.Body, func(m ast.Node) bool {
					switch v := m.(type) {
					case *ast.Ident:
						if v.Name == "plansFileName" || v.Name == "oldEventsFileName" {
							uses = append(uses, fd.Name.Name+":"+v.Name)
						}
					case *ast.BasicLit:
						if v.Kind == token.STRING {
							s, _ := strconv.Unquote(v.Value)
							if s == "plans.jsonl" || s == "events.jsonl" || strings.HasSuffix(s, ".jsonl") {
								uses = append(uses, fd.Name.Name+":literal:"+s)
							}
							if s == "lock" {
								uses = append(uses, fd.Name.Name+":lock")
							}
						}
					}
					return true
				})
				return false
			}
			return true
		})
		_ = fname
	}
	sort.Strings(uses)
	facts.LogNameUses = uses
}

// extractMapRanges: every `range` whose operand is (syntactically) one of the known map-typed expressions.
func extractMapRanges() {
	mapExpr := func(e ast.Expr) bool {
		s := src(e)
		for _, suf := range []string{".Tasks", ".Deps", ".RDeps", ".Meta", ".Tombstones", ".Invalid"} {
			if strings.HasSuffix(s, suf) {
				return true
			}
		}
		if strings.Contains(s, ".Deps[") || strings.Contains(s, ".RDeps[") {
			return true
		}
		switch s {
		case "items", "updates", "remainingUpdates", "eligibleTasks", "eligibleEpics", "titles", "deps", "tasks", "existing", "seen", "inDegree", "taskSet":
			return true
		}
		return false
	}
	names := []string{}
	for n := range funcs {
		names = append(names, n)
	}
	// methods too
	type fn struct {
		name string
		body *ast.BlockStmt
	}
	all := []fn{}
	for _, n := range names {
		all = append(all, fn{n, funcs[n].Body})
	}
	for _, f := range files {
		for _, d := range f.Decls {
			if fd, ok := d.(*ast.FuncDecl); ok && fd.Recv != nil && fd.Body != nil {
				all = append(all, fn{"(method)" + fd.Name.Name, fd.Body})
			}
		}
	}
	sort.Slice(all, func(i, j int) bool { return all[i].name < all[j].name })
	for _, f := range all {
		if f.body == nil {
			continue
		}
		ast.Inspect(f.body, func(n ast.Node) bool {
			rs, ok := n.(*ast.RangeStmt)
			if !ok || !mapExpr(rs.X) {
				return true
			}
			facts.MapRanges = append(facts.MapRanges, map[string]any{"func": f.name, "over": src(rs.X)})
			return true
		})
	}
}

func extractStdout() {
	names := []string{}
	for n := range funcs {
		names = append(names, n)
	}
	sort.Strings(names)
	for _, name := range names {
		fd := funcs[name]
		if fd.Body == nil {
			continue
		}
		counts := map[string]int{}
		ast.Inspect(fd.Body, func(n ast.Node) bool {
			ce, ok := n.(*ast.CallExpr)
			if !ok {
				return true
			}
			f := src(ce.Fun)
			switch {
			case f == "fmt.Println" || f == "fmt.Printf" || f == "fmt.Print":
				counts["print"]++
			case (f == "fmt.Fprintln" || f == "fmt.Fprintf" || f == "fmt.Fprint") && len(ce.Args) > 0 && src(ce.Args[0]) == "os.Stdout":
				counts["print"]++
			case f == "writeJSON" && len(ce.Args) > 0 && src(ce.Args[0]) == "os.Stdout":
				counts["json"]++
			case strings.HasSuffix(f, ".WriteJSON") && len(ce.Args) > 0 && src(ce.Args[0]) == "os.Stdout":
				counts["json_err"]++
			}
			return true
		})
		if len(counts) > 0 {
			facts.StdoutSites = append(facts.StdoutSites, map[string]any{"func": name, "print": counts["print"], "json": counts["json"], "json_err": counts["json_err"]})
		}
	}
}

func writeLean(path string) {
	var sb strings.Builder
	sb.WriteString("/- GENERATED by /verif/extract from /repo/internal/ergo — do not edit. -/\nnamespace Ergo.Gen\n")
	sb.WriteString("def validTransitions : List (String × List String) := [\n")
	for i, vt := range facts.ValidTransitions {
		sep := ","
		if i == len(facts.ValidTransitions)-1 {
			sep = ""
		}
		fmt.Fprintf(&sb, "  (%s, %s)%s\n", leanStr(vt[0].(string)), leanList(vt[1].([]string)), sep)
	}
	sb.WriteString("]\n")
	fmt.Fprintf(&sb, "def claimRequired : List String := %s\n", leanList(facts.ClaimRequired))
	fmt.Fprintf(&sb, "def claimForbidden : List String := %s\n", leanList(facts.ClaimForbidden))
	fmt.Fprintf(&sb, "def clearsClaim : List String := %s\n", leanList(facts.ClearsClaim))
	fmt.Fprintf(&sb, "def validStates : List String := %s\n", leanList(facts.ValidStates))
	fmt.Fprintf(&sb, "def replayCases : List String := %s\n", leanList(facts.ReplayCases))
	sb.WriteString("end Ergo.Gen\n")
	old, err := os.ReadFile(path)
	if err == nil && string(old) == sb.String() {
		return
	}
	os.WriteFile(path, []byte(sb.String()), 0644)
}
